package main

// gen_values.go — reusable random generator of Go TYPES (built with reflect) and VALUES of them.
//
// API
//
//	f := GenFeatures{...}                    what the caller's option set supports (see the struct)
//	gt := GenValType(r, f)                      a random type; nil if reflect refused to build it (counted by the caller)
//	gt.Type                                  reflect.Type (anonymous; struct types come from reflect.StructOf)
//	gt.Root                                  *TNode descriptor tree parallel to the type (kinds, tags, formats)
//	gt.HasOmit / gt.Lossy / gt.HasMap / gt.HasAny   facts the caller needs to pick the right predicate
//	gt.Feats()                               sorted feature names (kinds, tags, formats) for histograms
//	v := gt.Value(r)                         a random addressable value of the type (reflect.Value, CanSet)
//	diff := gt.Equal(a, b, EqMode{...})      "" when a and b are equal in the sense documented at EqMode,
//	                                         otherwise the path of the first difference
//	GoSyntax(v)                              a printable Go-like rendering of a value (floats as bit patterns)
//
// Everything random is drawn from the *rand.Rand that is passed in; the generator has no other state,
// so a (seed, features) pair replays exactly.
//
// Quantifier of the generated family (what C04 ranges over): bool, all int/uint widths, finite
// float32/float64, valid-UTF-8 strings (including characters that need JSON escapes), []byte,
// [N]byte, time.Time, time.Duration, slices, arrays, maps keyed by string/int/uint/float (no NaN),
// pointers (also nested), structs (0..130 fields, embedded structs, tags: name, omitzero, omitempty,
// string, case:, format:, "-"), and canonical untyped values in `any` (nil, bool, float64, string,
// []any, map[string]any), jsontext.Value holding any valid JSON value ("raw"), and one `embed` fallback
// field per struct (map[string]T or jsontext.Value holding an object).  Nesting depth <= 5.
//
// Object-name plans ("long names").  Every JSON object whose member names come from DATA (maps of every key
// kind, embed fallback maps, raw objects, map[string]any inside `any`) draws its names from a pool that is
// fixed per (generated type, Go map type): either ordinary random keys, or FEW names (3..64) whose total
// length straddles 1 KiB, or MANY (65..140) short names — the two thresholds at which the coder's
// duplicate-name namespace changes representation.  A container is filled with the whole pool, with a few
// names of it, or with fresh keys, so that sibling objects (slice/array/map elements, consecutive struct
// fields of the same type) and consecutive values of one type (consecutive Marshal/Unmarshal calls of one
// worker, i.e. the pooled coder) repeat names of an earlier, larger object at the same nesting depth.
//
// Excluded BY CONSTRUCTION, each because the library documents it as not round-trippable or as a
// Marshal error (so it is outside the quantifier of C04):
//   - NaN/±Inf floats (Marshal reports an error; `format:nonfinite` is exercised with finite values only);
//   - strings with invalid UTF-8 (Marshal reports an error by default; v1 replaces with U+FFFD);
//   - time zones whose offset is not a whole number of minutes or is beyond ±23:59, years outside
//     [0,9999] for the RFC 3339 layouts (Marshal reports an error), zone abbreviations other than
//     UTC for the layouts that print `MST` (time.Parse cannot map an abbreviation back);
//   - non-canonical values in `any` (e.g. int, []string): they decode as float64/[]any by design;
//   - single-quoted JSON names (`json:"'a b'"`): this version of fields.go rejects them as a
//     malformed tag (consumeTagOption(tag, allowQuoted=false)), Marshal reports an error;
//   - `string` on non-numeric kinds unless GenFeatures.LegacyString (Marshal reports an error);
//   - time.Duration without a format unless GenFeatures.BareDuration (no default representation).

import (
	"bytes"
	"fmt"
	"math"
	"math/big"
	"math/rand/v2"
	"reflect"
	"sort"
	"strconv"
	"strings"
	"time"
	"unicode/utf8"

	json "github.com/go-json-experiment/json"
	"github.com/go-json-experiment/json/jsontext"
)

// GenFeatures says what the option set under test supports, so that most generated types marshal.
type GenFeatures struct {
	FormatTags     bool // `format:` tags may be used (caller passes json.ExperimentalSupportFormatTag(true))
	BareDuration   bool // time.Duration without a format tag has a representation (v1 FormatDurationAsNano)
	LegacyString   bool // `string` may sit on any kind (v1 StringifyWithLegacySemantics + ReportErrorsWithLegacySemantics)
	// NoStringOnNestedPtr: under StringifyWithLegacySemantics WITHOUT ReportErrorsWithLegacySemantics the library
	// documents that `string` "does not apply to nested pointers" and reports an error for **T: do not generate it.
	NoStringOnNestedPtr bool
	MultiEntryMaps bool // maps may get more than one entry (caller is Deterministic or compares modulo member order)
	NoOmit         bool // never emit omitzero/omitempty (caller wants value equality to be meaningful)
	MaxDepth       int  // default 5
	MaxFields      int  // default 130
}

// TNode describes one node of a generated type.
type TNode struct {
	Kind   string // bool int8.. uint64 uintptr float32 float64 string bytes bytearray time duration slice array map ptr struct any
	T      reflect.Type
	Elem   *TNode // slice, array, ptr, map value
	Key    *TNode // map key
	Len    int    // array, bytearray
	Fields []*TField
	// Format is the `format:` value in effect at this node (set on the field, forwarded through pointers).
	Format string
	// Stringified: a `string` tag is in effect at this node.
	Stringified bool
	// LegacyQuoted: a Go string under `string` with v1 semantics (the JSON string holds the quoted JSON string).
	LegacyQuoted bool
	// KeyPrefix: every string key of this map / member name of this raw object starts with it (embed fallbacks use
	// "k:" so that no key equals, or case-folds to, a declared field name).
	KeyPrefix string
	// RawObject: a jsontext.Value that must hold a JSON object (embed fallback).
	RawObject bool
}

// TField is one struct field of a generated struct.
type TField struct {
	GoName    string
	JSONName  string // effective JSON name
	Tag       string // full struct tag
	Node      *TNode
	Omitzero  bool
	Omitempty bool
	String    bool
	Format    string
	Case      string // "", "ignore", "strict"
	Embedded  bool
	Ignored   bool // `json:"-"`
	Fallback  bool // `json:",embed"` on a map[string]T / jsontext.Value: receives every member that is not a declared field
	Shadowed  bool // an embedded field whose name collides with a shallower one (dropped by the library): not compared
}

// GenT is a generated type with the facts a predicate needs.
type GenT struct {
	Type    reflect.Type
	Root    *TNode
	HasOmit bool // some field has omitzero/omitempty
	Lossy   bool // some field is ignored/shadowed/has a lossy time layout: value equality is checked only on the other fields
	HasMap  bool
	HasAny  bool
	feats   map[string]bool
	f       GenFeatures
	pools   map[string]*namePool // object-name plans, per Go map type (or "raw"/"any")
}

func (g *GenT) Feats() []string {
	var s []string
	for k := range g.feats {
		s = append(s, k)
	}
	sort.Strings(s)
	return s
}

var (
	timeType = reflect.TypeFor[time.Time]()
	durType  = reflect.TypeFor[time.Duration]()
	anyRType = reflect.TypeFor[any]()
)

var scalarKinds = []string{"bool", "int", "int8", "int16", "int32", "int64", "uint", "uint8", "uint16", "uint32", "uint64", "uintptr",
	"float32", "float64", "string", "bytes", "bytearray", "time", "duration", "any", "raw"}
var compositeKinds = []string{"slice", "array", "map", "ptr", "struct"}

var basicTypes = map[string]reflect.Type{
	"bool": reflect.TypeFor[bool](), "int": reflect.TypeFor[int](), "int8": reflect.TypeFor[int8](), "int16": reflect.TypeFor[int16](),
	"int32": reflect.TypeFor[int32](), "int64": reflect.TypeFor[int64](), "uint": reflect.TypeFor[uint](), "uint8": reflect.TypeFor[uint8](),
	"uint16": reflect.TypeFor[uint16](), "uint32": reflect.TypeFor[uint32](), "uint64": reflect.TypeFor[uint64](), "uintptr": reflect.TypeFor[uintptr](),
	"float32": reflect.TypeFor[float32](), "float64": reflect.TypeFor[float64](), "string": reflect.TypeFor[string](),
	"bytes": reflect.TypeFor[[]byte](), "time": timeType, "duration": durType, "any": anyRType, "raw": reflect.TypeFor[jsontext.Value](),
}

// Formats by kind.  The time layouts are split by what they preserve.
var bytesFormats = []string{"base64", "base64url", "base32", "base32hex", "base16", "hex", "array"}
var durFormats = []string{"sec", "milli", "micro", "nano", "units", "iso8601"}
var timeFormatsExact = []string{"RFC3339Nano", "unix", "unixmilli", "unixmicro", "unixnano"}    // instant preserved to the nanosecond
var timeFormatsLossy = []string{"RFC3339", "DateOnly", "DateTime", "TimeOnly", "ANSIC", "RFC822Z", // bytes round trip, value does not
	"RFC1123Z", "RubyDate", "Kitchen", "Stamp", "StampMilli", "StampMicro", "StampNano", "UnixDate", "RFC822", "RFC850", "RFC1123", "'2006-01-02T15'", "'Jan _2 2006'"}

// layouts that print a zone abbreviation (`MST`): only UTC survives time.Parse
var timeFormatsMST = map[string]bool{"UnixDate": true, "RFC822": true, "RFC850": true, "RFC1123": true}

func isNumericKind(k string) bool {
	switch k {
	case "int", "int8", "int16", "int32", "int64", "uint", "uint8", "uint16", "uint32", "uint64", "uintptr", "float32", "float64":
		return true
	}
	return false
}

// GenValType builds one random type.  It returns nil when reflect refuses the construction
// (reflect.StructOf/ArrayOf panic for some shapes); the caller counts and skips those.
func GenValType(r *rand.Rand, f GenFeatures) (g *GenT) {
	if f.MaxDepth == 0 {
		f.MaxDepth = 5
	}
	if f.MaxFields == 0 {
		f.MaxFields = 130
	}
	g = &GenT{feats: map[string]bool{}, f: f, pools: map[string]*namePool{}}
	defer func() {
		if p := recover(); p != nil {
			if _, ok := p.(machineryFailure); ok {
				panic(p)
			}
			g = nil // reflect refused
		}
	}()
	budget := 400 // total node budget so that 130-field structs stay shallow
	// top level: prefer composites so that the property is exercised on structure
	g.Root = g.genNode(r, 0, &budget, r.IntN(5) != 0, false, false)
	g.Type = g.Root.T
	return g
}

func (g *GenT) genNode(r *rand.Rand, depth int, budget *int, preferComposite, smallOnly, durOK bool) *TNode {
	*budget--
	composite := depth < g.f.MaxDepth-1 && *budget > 0 && !smallOnly && (preferComposite || r.IntN(3) == 0)
	if !composite {
		return g.genLeaf(r, durOK || g.f.BareDuration)
	}
	k := compositeKinds[r.IntN(len(compositeKinds))]
	if preferComposite && r.IntN(2) == 0 {
		k = "struct"
	}
	g.feats["kind:"+k] = true
	n := &TNode{Kind: k}
	switch k {
	case "slice":
		n.Elem = g.genNode(r, depth+1, budget, false, false, false)
		if n.Elem.Kind == "uint8" { // []uint8 IS []byte
			g.feats["kind:bytes"] = true
			return &TNode{Kind: "bytes", T: basicTypes["bytes"]}
		}
		n.T = reflect.SliceOf(n.Elem.T)
	case "array":
		n.Elem = g.genNode(r, depth+1, budget, false, false, false)
		n.Len = r.IntN(4)
		if n.Elem.Kind == "uint8" { // [N]uint8 IS a byte array
			g.feats["kind:bytearray"] = true
			return &TNode{Kind: "bytearray", Len: n.Len, T: reflect.ArrayOf(n.Len, basicTypes["uint8"])}
		}
		n.T = reflect.ArrayOf(n.Len, n.Elem.T)
	case "ptr":
		n.Elem = g.genNode(r, depth+1, budget, false, false, durOK) // a format tag is forwarded through pointers
		n.T = reflect.PointerTo(n.Elem.T)
	case "map":
		keys := []string{"string", "string", "string", "int", "int8", "int64", "uint", "uint16", "uint64", "float64", "float32", "int32", "uint8", "uint32", "int16"}
		kk := keys[r.IntN(len(keys))]
		n.Key = &TNode{Kind: kk, T: basicTypes[kk]}
		g.feats["mapkey:"+kk] = true
		n.Elem = g.genNode(r, depth+1, budget, false, false, false)
		n.T = reflect.MapOf(n.Key.T, n.Elem.T)
		g.HasMap = true
	case "struct":
		g.genStruct(r, n, depth, budget, "", map[string]bool{})
	}
	return n
}

func (g *GenT) genLeaf(r *rand.Rand, durOK bool) *TNode {
	for {
		k := scalarKinds[r.IntN(len(scalarKinds))]
		if k == "duration" && !durOK {
			// a bare time.Duration has no default representation (Marshal reports an error) unless
			// FormatDurationAsNano; as a struct field it gets a mandatory `format:` tag instead.
			continue
		}
		g.feats["kind:"+k] = true
		n := &TNode{Kind: k, T: basicTypes[k]}
		if k == "bytearray" {
			n.Len = r.IntN(6)
			if r.IntN(8) == 0 {
				n.Len = 16 + r.IntN(20)
			}
			n.T = reflect.ArrayOf(n.Len, basicTypes["uint8"])
		}
		if k == "any" || k == "raw" {
			g.HasAny = true // both may hold objects whose member order comes from a Go map
		}
		return n
	}
}

var jsonNamePool = []string{"a", "b", "name", "Name", "NAME", "a b", "a\tb", "<x>", "x&y", "é", " ", " ", "😀", "a/b", "\x7f", "\x01",
	"a-b", "a.b", "0", "-", " ", "snake_case", "camelCase", "ß", "K", "K", "ſ", "日本語", "a=b", "{", "}", "[", "]", ":", "~", "$ref", " ", "�"}

func (g *GenT) fieldCount(r *rand.Rand, depth int, budget *int) int {
	var n int
	switch x := r.IntN(40); {
	case x == 0 && depth == 0:
		n = 125 + r.IntN(6) // 125..130: beyond the two-word uintSet
	case x == 1 && depth <= 1:
		n = 62 + r.IntN(6) // straddles 64
	case x == 2:
		n = 0
	case x < 8:
		n = 1
	default:
		n = 2 + r.IntN(7)
	}
	if n > g.f.MaxFields {
		n = g.f.MaxFields
	}
	if n > *budget && n < 60 {
		n = max(*budget, 0)
	}
	return n
}

// innerStruct returns the struct node behind an embedded field (T or *T).
func innerStruct(f *TField) *TNode {
	if f.Node.Kind == "ptr" {
		return f.Node.Elem
	}
	return f.Node
}

// promotedFields lists the plain fields reachable through embedded fields of n (at any depth).
func promotedFields(n *TNode, out []*TField) []*TField {
	for _, f := range n.Fields {
		if f.Embedded {
			for _, ef := range innerStruct(f).Fields {
				if !ef.Embedded && !ef.Ignored && !ef.Shadowed {
					out = append(out, ef)
				}
			}
			out = promotedFields(innerStruct(f), out)
		}
	}
	return out
}

// visibleFields counts the plain fields that can produce a JSON member (own or promoted).
func visibleFields(n *TNode) int {
	c := 0
	for _, f := range n.Fields {
		switch {
		case f.Embedded:
			c += visibleFields(innerStruct(f))
		case !f.Ignored && !f.Shadowed:
			c++
		}
	}
	return c
}

// genStruct fills n with a reflect.StructOf type.  `used` is the JSON namespace the fields land in: an
// embedded struct shares its parent's (its members are hoisted into the same JSON object), so that two
// names only ever collide when the generator shadows one on purpose.
func (g *GenT) genStruct(r *rand.Rand, n *TNode, depth int, budget *int, prefix string, used map[string]bool) {
	nf := g.fieldCount(r, depth, budget)
	big := nf > 20
	var sfs []reflect.StructField
	for i := 0; i < nf; i++ {
		fld := &TField{GoName: prefix + "F" + strconv.Itoa(i)}
		// embedded struct (reflect.StructOf supports exported embedded T / *T of struct types without methods)
		if !big && depth < g.f.MaxDepth-2 && r.IntN(12) == 0 {
			inner := &TNode{Kind: "struct"}
			*budget--
			fld.GoName = prefix + "Emb" + strconv.Itoa(i)
			g.genStruct(r, inner, depth+1, budget, fld.GoName, used)
			fld.Embedded = true
			fld.Node = inner
			g.feats["tag:embedded"] = true
			if r.IntN(3) == 0 { // embedded *struct
				fld.Node = &TNode{Kind: "ptr", T: reflect.PointerTo(inner.T), Elem: inner}
				g.feats["tag:embedded-ptr"] = true
			}
			sfs = append(sfs, reflect.StructField{Name: fld.GoName, Type: fld.Node.T, Anonymous: true})
			n.Fields = append(n.Fields, fld)
			continue
		}
		fld.Node = g.genNode(r, depth+1, budget, false, big, g.f.FormatTags)
		// consecutive fields of the SAME type (sibling objects at one depth that draw names from one pool)
		if i > 0 && r.IntN(8) == 0 {
			if prev := n.Fields[len(n.Fields)-1]; !prev.Embedded && !prev.Ignored && prev.Node.Kind != "duration" && prev.Node.Kind != "time" {
				fld.Node = cloneForSibling(prev.Node)
				g.feats["shape:sibling-fields-same-type"] = true
			}
		}
		if r.IntN(40) == 0 {
			fld.Ignored = true
			g.Lossy = true
			g.feats["tag:ignored"] = true
			fld.Tag = `json:"-"`
			sfs = append(sfs, reflect.StructField{Name: fld.GoName, Type: fld.Node.T, Tag: reflect.StructTag(fld.Tag)})
			n.Fields = append(n.Fields, fld)
			continue
		}
		// --- JSON name
		var opts []string
		name := "" // explicit name in the tag ("" = none)
		fld.JSONName = fld.GoName
		switch x := r.IntN(10); {
		case x < 4:
		case x < 5 && !big:
			// deliberately shadow a name promoted from an embedded struct: the shallower field wins, the
			// embedded one is dropped by the library (both directions) and therefore not compared
			if promoted := promotedFields(n, nil); len(promoted) > 0 {
				ef := promoted[r.IntN(len(promoted))]
				ef.Shadowed = true
				g.Lossy = true
				g.feats["tag:shadowed"] = true
				name = ef.JSONName
			}
		default:
			name = jsonNamePool[r.IntN(len(jsonNamePool))]
			if r.IntN(3) == 0 {
				name += strconv.Itoa(i)
			}
			if r.IntN(25) == 0 {
				name = strings.Repeat(name, 20) // long names (namespace switch at 1 KiB of names)
			}
			// `json:"-"` means "ignore", and "-," (the v1 spelling of the name "-") is a malformed tag in this version
			if name == "-" || used[name] {
				name = ""
			}
		}
		if name != "" {
			fld.JSONName = name
			if jsonNeedsEscape(name) {
				g.feats["tag:name-needs-escape"] = true
			} else {
				g.feats["tag:name"] = true
			}
		}
		if used[fld.JSONName] && name == "" {
			fail("generator: Go field name %q collides", fld.JSONName)
		}
		used[fld.JSONName] = true
		base := fld.Node // the node a `string`/`format` tag finally applies to (forwarded through pointers)
		ptrDepth := 0
		for base.Kind == "ptr" {
			base = base.Elem
			ptrDepth++
		}
		if r.IntN(12) == 0 {
			fld.Case = []string{"ignore", "strict"}[r.IntN(2)]
			opts = append(opts, "case:"+fld.Case)
			g.feats["tag:case:"+fld.Case] = true
		}
		if !g.f.NoOmit {
			if r.IntN(7) == 0 {
				fld.Omitzero = true
				opts = append(opts, "omitzero")
				g.HasOmit = true
				g.feats["tag:omitzero"] = true
			}
			if r.IntN(7) == 0 {
				fld.Omitempty = true
				opts = append(opts, "omitempty")
				g.HasOmit = true
				g.feats["tag:omitempty"] = true
			}
		}
		// format (chosen first because `string` on a time needs a numeric format; written last in the tag)
		if g.f.FormatTags {
			var pool []string
			switch base.Kind {
			case "bytes", "bytearray":
				pool = bytesFormats
			case "float32", "float64":
				if r.IntN(3) == 0 {
					pool = []string{"nonfinite"}
				}
			case "slice", "map":
				if r.IntN(3) == 0 {
					pool = []string{"emitnull", "emitempty"}
				}
			case "time":
				if r.IntN(3) == 0 {
					pool = timeFormatsLossy
				} else {
					pool = timeFormatsExact
				}
			case "duration":
				pool = durFormats
			}
			mandatory := base.Kind == "duration" && !g.f.BareDuration
			if len(pool) > 0 && (mandatory || r.IntN(3) != 0) {
				fld.Format = pool[r.IntN(len(pool))]
				base.Format = strings.Trim(fld.Format, "'")
				g.feats["format:"+base.Kind+":"+base.Format] = true
			}
		}
		if base.Kind == "duration" && base.Format == "" && !g.f.BareDuration {
			fail("generator: bare duration without support")
		}
		if base.Kind == "time" {
			switch base.Format {
			case "", "RFC3339Nano", "unix", "unixmilli", "unixmicro", "unixnano":
			default:
				g.Lossy = true // this field is not compared by value (GenT.Equal skips it)
			}
		}
		// string: numeric kinds, and time/duration in a numeric representation; under LegacyString any kind
		// (there it is ignored or, for bool/string, applied).
		stringOK := isNumericKind(base.Kind)
		switch base.Format {
		case "unix", "unixmilli", "unixmicro", "unixnano", "sec", "milli", "micro", "nano":
			stringOK = true
		}
		if g.f.NoStringOnNestedPtr && ptrDepth > 1 {
			stringOK = false
		}
		if stringOK && r.IntN(4) == 0 || g.f.LegacyString && r.IntN(10) == 0 {
			fld.String = true
			opts = append(opts, "string")
			if stringOK {
				base.Stringified = true
				g.feats["tag:string"] = true
			} else {
				g.feats["tag:string-legacy-on-"+base.Kind] = true
				base.LegacyQuoted = base.Kind == "string"
			}
		}
		if fld.Format != "" {
			opts = append(opts, "format:"+fld.Format)
		}
		tag := name
		if len(opts) > 0 {
			tag += "," + strings.Join(opts, ",")
		}
		st := reflect.StructField{Name: fld.GoName, Type: fld.Node.T}
		if tag != "" {
			fld.Tag = "json:" + strconv.Quote(tag)
			st.Tag = reflect.StructTag(fld.Tag)
			if got, ok := st.Tag.Lookup("json"); !ok || got != tag {
				fail("generator: struct tag %q does not read back as %q (got %q)", fld.Tag, tag, got)
			}
		}
		sfs = append(sfs, st)
		n.Fields = append(n.Fields, fld)
	}
	// one `embed` fallback per JSON object: only on a struct that is not itself hoisted into a parent object
	if prefix == "" && !used["\x00fallback"] && r.IntN(8) == 0 {
		used["\x00fallback"] = true
		fld := &TField{GoName: "Fallback", Fallback: true, Tag: `json:",embed"`}
		if r.IntN(3) == 0 {
			fld.Node = &TNode{Kind: "raw", T: basicTypes["raw"], RawObject: true, KeyPrefix: "k:"}
			g.feats["tag:embed-fallback-raw"] = true
		} else {
			elem := g.genLeaf(r, g.f.BareDuration)
			fld.Node = &TNode{Kind: "map", Key: &TNode{Kind: "string", T: basicTypes["string"]}, Elem: elem, KeyPrefix: "k:"}
			fld.Node.T = reflect.MapOf(fld.Node.Key.T, elem.T)
			g.feats["tag:embed-fallback-map"] = true
		}
		g.HasMap = true
		sfs = append(sfs, reflect.StructField{Name: fld.GoName, Type: fld.Node.T, Tag: reflect.StructTag(fld.Tag)})
		n.Fields = append(n.Fields, fld)
	}
	n.T = reflect.StructOf(sfs)
	switch {
	case nf > 128:
		g.feats["fields:129..130"] = true
	case nf > 64:
		g.feats["fields:65..128"] = true
	case nf > 8:
		g.feats["fields:9..64"] = true
	case nf > 0:
		g.feats["fields:1..8"] = true
	default:
		g.feats["fields:0"] = true
	}
}

// cloneForSibling copies the pointer chain of n (whose base carries the flags set by the previous field's
// tag) and shares everything below it, so that a second field can have the same Go type with its own tag.
func cloneForSibling(n *TNode) *TNode {
	c := *n
	c.Format, c.Stringified, c.LegacyQuoted = "", false, false
	if n.Kind == "ptr" {
		c.Elem = cloneForSibling(n.Elem)
	}
	return &c
}

// ---------------------------------------------------------------- object-name plans

// namePool is the fixed set of member names that the objects of one Go map type (within one generated type) draw from.
type namePool struct {
	plan string          // "none" | "long" (few names, about 1 KiB in total) | "many" (65..140 short names)
	keys []reflect.Value // typed keys (map key type); for raw/any pools: strings
}

func (g *GenT) pool(r *rand.Rand, id, keyKind string, keyT reflect.Type, prefix string) *namePool {
	if p, ok := g.pools[id]; ok {
		return p
	}
	p := &namePool{plan: "none"}
	g.pools[id] = p
	if !g.f.MultiEntryMaps {
		return p
	}
	switch x := r.IntN(10); {
	case x < 5:
		return p
	case x < 8:
		p.plan = "long"
	default:
		p.plan = "many"
	}
	mk := func(f func(v reflect.Value)) {
		v := reflect.New(keyT).Elem()
		f(v)
		p.keys = append(p.keys, v)
	}
	bits := 64
	switch keyKind {
	case "int8", "uint8":
		bits = 8
	case "int16", "uint16":
		bits = 16
	case "int32", "uint32", "float32":
		bits = 32
	}
	// "long" needs names of >= 16 bytes to cross 1 KiB with at most 64 of them: strings, 64-bit integers, float64
	if p.plan == "long" && bits < 64 {
		p.plan = "many"
	}
	total := 1024 - 60 + r.IntN(260) // straddles the 1024-byte switch of the namespace
	nMany := 65 + r.IntN(76)
	switch {
	case keyKind == "string":
		fillc := []string{"x", "x", "é", "<", "\t", "0"}[r.IntN(6)]
		if p.plan == "long" {
			n := 3 + r.IntN(38)
			for i := 0; i < n; i++ {
				name := prefix + string(rune('a'+i%26)) + strconv.Itoa(i)
				for len(name) < total/n+1 {
					name += fillc
				}
				mk(func(v reflect.Value) { v.SetString(name) })
			}
		} else {
			for i := 0; i < nMany; i++ {
				name := prefix + "n" + strconv.Itoa(i)
				mk(func(v reflect.Value) { v.SetString(name) })
			}
		}
	case keyKind == "float64":
		if p.plan == "long" {
			f := (1 + r.Float64()) * math.Pow(10, float64(r.IntN(500)-250))
			if r.IntN(2) == 0 {
				f = -f
			}
			n := total/len(strconv.FormatFloat(f, 'g', -1, 64)) + 1
			if n > 64 {
				n = 64
			}
			for i := 0; i < n; i++ {
				x := f
				mk(func(v reflect.Value) { v.SetFloat(x) })
				f = math.Nextafter(f, f*2)
			}
		} else {
			for i := 0; i < nMany; i++ {
				x := float64(i-20) * 0.5
				mk(func(v reflect.Value) { v.SetFloat(x) })
			}
		}
	case keyKind == "float32":
		for i := 0; i < nMany; i++ {
			x := float64(float32(i-20) * 0.25)
			mk(func(v reflect.Value) { v.SetFloat(x) })
		}
	case keyKind[0] == 'i': // signed
		if p.plan == "long" {
			n := min(total/20+1, 64)
			for i := 0; i < n; i++ {
				x := math.MinInt64 + int64(i)*int64(1+r.IntN(1000))
				mk(func(v reflect.Value) { v.SetInt(x) })
			}
		} else {
			base := int64(-70)
			if bits > 8 && r.IntN(2) == 0 {
				base = (int64(1)<<(bits-1) - 1) - int64(nMany) // up to the maximum of the kind
			}
			for i := 0; i < nMany; i++ {
				x := base + int64(i)
				mk(func(v reflect.Value) { v.SetInt(x) })
			}
		}
	default: // unsigned
		if p.plan == "long" {
			n := min(total/20+1, 64)
			for i := 0; i < n; i++ {
				x := uint64(math.MaxUint64) - uint64(i)*uint64(1+r.IntN(1000))
				mk(func(v reflect.Value) { v.SetUint(x) })
			}
		} else {
			base := uint64(0)
			if bits > 8 && r.IntN(2) == 0 {
				base = (uint64(1)<<(bits-1))*2 - 1 - uint64(nMany)
			}
			for i := 0; i < nMany; i++ {
				x := base + uint64(i)
				mk(func(v reflect.Value) { v.SetUint(x) })
			}
		}
	}
	g.feats["names:"+p.plan+":"+keyKind] = true
	return p
}

// pick returns the keys one object takes from its pool: all of them, a few of them, or nil (= use fresh random keys).
func (p *namePool) pick(r *rand.Rand) []reflect.Value {
	if p.plan == "none" || len(p.keys) == 0 {
		return nil
	}
	switch r.IntN(5) {
	case 0, 1:
		return p.keys
	case 2, 3:
		k := 1 + r.IntN(3)
		out := make([]reflect.Value, 0, k)
		for i := 0; i < k; i++ {
			out = append(out, p.keys[r.IntN(len(p.keys))])
		}
		return out
	}
	return nil
}

// pooledAny builds canonical untyped objects whose names come from the pool `id`: one object, or sibling objects in an array.
func (g *GenT) pooledAny(r *rand.Rand, id, prefix string, objectOnly bool) any {
	p := g.pool(r, id, "string", basicTypes["string"], prefix)
	obj := func() map[string]any {
		m := map[string]any{}
		keys := p.pick(r)
		if keys == nil {
			for i := r.IntN(3); i > 0; i-- {
				m[prefix+ValidString(r)] = genAnyN(r, 4, 1)
			}
			if !g.f.MultiEntryMaps && len(m) > 1 {
				for k := range m {
					if len(m) > 1 {
						delete(m, k)
					}
				}
			}
			return m
		}
		for i, k := range keys {
			m[k.String()] = float64(i)
		}
		return m
	}
	if objectOnly || r.IntN(2) == 0 {
		return obj()
	}
	return []any{obj(), obj(), obj()}
}

func jsonNeedsEscape(s string) bool {
	for _, c := range s {
		if c < 0x20 || c == '"' || c == '\\' || c == '<' || c == '>' || c == '&' || c == 0x7f || c == 0x2028 || c == 0x2029 || c == utf8.RuneError {
			return true
		}
	}
	return false
}

// ---------------------------------------------------------------- values

// Value returns a random addressable value of the generated type.
func (g *GenT) Value(r *rand.Rand) reflect.Value {
	v := reflect.New(g.Type).Elem()
	g.fill(r, g.Root, v, 0)
	return v
}

var genInt64s = []int64{0, 1, -1, 2, 9, 10, 99, 100, 127, 128, -128, -129, 255, 256, 999, 1000, 32767, 32768, -32768, 65535, 65536,
	1<<31 - 1, 1 << 31, -1 << 31, 1<<32 - 1, 1 << 32, 1<<53 - 1, 1 << 53, 1<<53 + 1, -(1 << 53) - 1, 999999999, 1000000000, 1000000001,
	999999999999999999, 1000000000000000000, math.MaxInt64, math.MaxInt64 - 1, math.MinInt64, math.MinInt64 + 1}

// BoundaryInt64 draws a boundary-dense int64: 0, ±1, ±10^k±1, ±2^k±1, extremes, uniform.
func BoundaryInt64(r *rand.Rand) int64 {
	switch r.IntN(8) {
	case 0:
		return genInt64s[r.IntN(len(genInt64s))]
	case 1: // ±10^k + d
		p := int64(1)
		for k := r.IntN(19); k > 0; k-- {
			p *= 10
		}
		x := p + int64(r.IntN(5)) - 2
		if r.IntN(2) == 0 {
			x = -x
		}
		return x
	case 2: // ±2^k + d
		x := int64(1)<<r.IntN(63) + int64(r.IntN(5)) - 2
		if r.IntN(2) == 0 {
			x = -x
		}
		return x
	case 3:
		return math.MaxInt64 - int64(r.IntN(2000))
	case 4:
		return math.MinInt64 + int64(r.IntN(2000))
	case 5: // random magnitude
		return int64(r.Uint64()) >> r.IntN(64)
	case 6:
		return int64(r.IntN(2001)) - 1000
	default:
		return int64(r.Uint64())
	}
}

func boundaryUint64(r *rand.Rand) uint64 {
	switch r.IntN(6) {
	case 0:
		return math.MaxUint64 - uint64(r.IntN(2000))
	case 1:
		return uint64(1)<<r.IntN(64) + uint64(r.IntN(5)) - 2
	case 2:
		return uint64(r.IntN(1000))
	case 3:
		return r.Uint64() >> r.IntN(64)
	default:
		return uint64(BoundaryInt64(r))
	}
}

var genFloat64s = []float64{0, math.Copysign(0, -1), 1, -1, 0.1, 0.5, 1.5, 1e21, 1e21 - 65536, 1e-6, 1e-7, 9.999999e-7, 123456789012345680, 1 << 53, 1<<53 + 2,
	math.MaxFloat64, -math.MaxFloat64, math.SmallestNonzeroFloat64, -math.SmallestNonzeroFloat64, 2.2250738585072014e-308, 2.225073858507201e-308,
	math.MaxFloat32, math.SmallestNonzeroFloat32, 5e-324, 1.7976931348623157e308, 4.9406564584124654e-324, 3.141592653589793, 100, 1e20, 1e22, 0.000001, 123.456}

// FiniteFloat draws a finite float of the given width (32/64): specials, subnormals, integers, random bit patterns.
func FiniteFloat(r *rand.Rand, bits int) float64 {
	for {
		var f float64
		switch r.IntN(6) {
		case 0:
			f = genFloat64s[r.IntN(len(genFloat64s))]
		case 1:
			f = float64(BoundaryInt64(r))
		case 2: // subnormal
			if bits == 32 {
				f = float64(math.Float32frombits(r.Uint32() & 0x807fffff))
			} else {
				f = math.Float64frombits(r.Uint64() & 0x800fffffffffffff)
			}
		case 3:
			f = float64(r.IntN(2000)-1000) / float64(int(1)<<r.IntN(12))
		default:
			if bits == 32 {
				f = float64(math.Float32frombits(r.Uint32()))
			} else {
				f = math.Float64frombits(r.Uint64())
			}
		}
		if bits == 32 {
			f = float64(float32(f))
		}
		if !math.IsNaN(f) && !math.IsInf(f, 0) {
			return f
		}
	}
}

var genStrings = []string{"", "a", "hello", " ", "\"", "\\", "/", "\b\f\n\r\t", "\x00", "\x1f", "\x7f", "<script>&amp;</script>", "  ", "é", "日本語", "😀", "\U0010ffff",
	"�", "퟿", "null", "true", "0", "-0", "1e5", "\"quoted\"", "a\"b\\c", " ", "ÿ", "\\u0041", "'", "`", "{}", "[]", "NaN", "Infinity"}

// ValidString draws a valid-UTF-8 string, dense in characters that need escaping.
func ValidString(r *rand.Rand) string {
	switch r.IntN(5) {
	case 0:
		return genStrings[r.IntN(len(genStrings))]
	case 1:
		return genStrings[r.IntN(len(genStrings))] + genStrings[r.IntN(len(genStrings))]
	case 2:
		n := r.IntN(12)
		var sb strings.Builder
		for i := 0; i < n; i++ {
			var c rune
			switch r.IntN(6) {
			case 0:
				c = rune(r.IntN(0x20))
			case 1:
				c = rune(0x20 + r.IntN(0x60))
			case 2:
				c = rune(0x80 + r.IntN(0x780))
			case 3:
				c = rune(0x800 + r.IntN(0xF800))
			case 4:
				c = rune(0x10000 + r.IntN(0x100000))
			default:
				c = []rune{'"', '\\', '<', '>', '&', 0x2028, 0x2029, 0x7f, 0xfffd, 0xd7ff, 0xe000}[r.IntN(11)]
			}
			if c >= 0xd800 && c < 0xe000 {
				c = 0xfffd
			}
			sb.WriteRune(c)
		}
		return sb.String()
	case 3:
		return strings.Repeat("x", r.IntN(200)) // long plain strings (buffer boundaries)
	default:
		b := make([]byte, r.IntN(8))
		for i := range b {
			b[i] = byte(0x20 + r.IntN(0x5f))
		}
		return string(b)
	}
}

var genZones = []*time.Location{time.UTC, time.UTC, time.Local, time.FixedZone("", 0), time.FixedZone("", 3600), time.FixedZone("X", -3600),
	time.FixedZone("", 23*3600+59*60), time.FixedZone("", -(23*3600 + 59*60)), time.FixedZone("", 5*3600+30*60), time.FixedZone("", -60), time.FixedZone("PST", -8*3600)}

const (
	minRFC3339Sec = -62135596800 + 2*86400 // 0001-01-03 (a margin of two days so that any ±23:59 offset stays inside year [1,9999])
	maxRFC3339Sec = 253402300799 - 2*86400 // 9999-12-29
)

// ---------------------------------------------------------------- boundaries derived from the 64-bit arithmetic
//
// The unix-time and decimal-duration codecs multiply and add 64-bit quantities: a count of whole units
// W = sec*pow10 + nsec/(1e9/pow10) (writer, and `whole*pow10 + frac` in the parsers), for pow10 in {1,1e3,1e6,1e9},
// which must be compared with the limits q in {2^63-1, 2^63, 2^64-1, 2^64} (MaxInt64, |MinInt64|, MaxUint64, the
// uint64 wrap point), and the writer switches regime at sec = 1e9.  The samples below are derived from THAT
// arithmetic, not from any particular instance of it:
//
//   - every (sec, nsec) whose unit count W lies within ±2 of a limit q (sub-unit remainder 0, 1 ns, and one ns below
//     the next unit), i.e. the exact sub-second value at which sec*pow10 + frac crosses q, ±1, ±2 units;
//   - sec = floor(q/pow10) + {-2..+2} and ceil(q/pow10) + {-2..+2}, each with nsec in {0, 1, 999999999, the remainder
//     (q mod pow10) scaled to ns, ± one unit, ± 1 ns};
//   - sec = 1e9 + {-2..+2} (regime switch) with the same nsec variants;
//   - each magnitude as a positive time and as the negative time whose negateSecNano image it is.
//
// Durations: d = ±(q - {0..2}), ±(floor(q/u)*u + {-1,0,1}), ±(floor(q/u)*u + u - 1) for the int64 limits q and every unit
// u the codecs multiply by (1e3, 1e6, 1e9 for the decimal formats; 1e9, 60e9, 3600e9 for ISO 8601).

var arithTimes [][2]int64
var arithDurs []int64

func arithLimits() []*big.Int {
	one := big.NewInt(1)
	l63 := new(big.Int).Lsh(one, 63)
	l64 := new(big.Int).Lsh(one, 64)
	return []*big.Int{new(big.Int).Sub(l63, one), l63, new(big.Int).Sub(l64, one), l64}
}

// ArithBoundaryTimes returns the (Unix seconds, nanoseconds) pairs described above (deterministic, a few thousand).
func ArithBoundaryTimes() [][2]int64 {
	if arithTimes != nil {
		return arithTimes
	}
	seen := map[[2]int64]bool{}
	minI, maxI := big.NewInt(math.MinInt64), big.NewInt(math.MaxInt64)
	addMag := func(S *big.Int, N int64) { // magnitude (S seconds, N ns) as a positive and as a negative time
		if N < 0 || N >= 1e9 || S.Sign() < 0 {
			return
		}
		put := func(sec *big.Int, nsec int64) {
			if sec.Cmp(minI) < 0 || sec.Cmp(maxI) > 0 {
				return
			}
			k := [2]int64{sec.Int64(), nsec}
			if !seen[k] {
				seen[k] = true
				arithTimes = append(arithTimes, k)
			}
		}
		put(S, N)
		neg := new(big.Int).Neg(S)
		if N > 0 { // negateSecNano(sec, nsec) = (-sec-1, 1e9-nsec)
			put(neg.Sub(neg, big.NewInt(1)), 1e9-N)
		} else {
			put(neg, 0)
		}
	}
	limits := arithLimits()
	for _, p := range []int64{1, 1e3, 1e6, 1e9} {
		P, unit := big.NewInt(p), int64(1e9)/p // unit = ns per counted unit
		nsecVariants := func(rem int64) []int64 { // rem = remainder in units
			base := rem * unit
			return []int64{0, 1, 999999999, base, base + 1, base - 1, base + unit, base - unit, base + unit - 1, base + unit + 1, base - unit - 1, 500000000}
		}
		var secCenters []*big.Int
		var rems []int64
		for _, q := range limits {
			// (a) unit counts W = q + {-2..2}
			for d := int64(-2); d <= 2; d++ {
				W := new(big.Int).Add(q, big.NewInt(d))
				S, R := new(big.Int).DivMod(W, P, new(big.Int))
				for _, sub := range []int64{0, 1, unit - 1} {
					addMag(S, R.Int64()*unit+sub)
				}
			}
			// (b) floor and ceil of q/pow10
			fl, rem := new(big.Int).DivMod(q, P, new(big.Int))
			secCenters = append(secCenters, fl, new(big.Int).Add(fl, big.NewInt(1)))
			rems = append(rems, rem.Int64(), rem.Int64())
		}
		secCenters = append(secCenters, big.NewInt(1e9)) // the writer's own regime switch
		rems = append(rems, 0)
		for i, ce := range secCenters {
			for d := int64(-2); d <= 2; d++ {
				S := new(big.Int).Add(ce, big.NewInt(d))
				for _, N := range nsecVariants(rems[i]) {
					addMag(S, N)
				}
			}
		}
	}
	return arithTimes
}

// ArithBoundaryDurations returns the int64 durations described above.
func ArithBoundaryDurations() []int64 {
	if arithDurs != nil {
		return arithDurs
	}
	seen := map[int64]bool{}
	minI, maxI := big.NewInt(math.MinInt64), big.NewInt(math.MaxInt64)
	put := func(x *big.Int) {
		for _, y := range []*big.Int{x, new(big.Int).Neg(x)} {
			if y.Cmp(minI) >= 0 && y.Cmp(maxI) <= 0 && !seen[y.Int64()] {
				seen[y.Int64()] = true
				arithDurs = append(arithDurs, y.Int64())
			}
		}
	}
	for _, q := range arithLimits()[:2] {
		for d := int64(0); d <= 2; d++ {
			put(new(big.Int).Sub(q, big.NewInt(d)))
		}
		for _, u := range []int64{1e3, 1e6, 1e9, 60e9, 3600e9} {
			U := big.NewInt(u)
			fl := new(big.Int).Div(q, U)
			base := new(big.Int).Mul(fl, U)
			for _, d := range []int64{-1, 0, 1, u - 1, u, -u, -u - 1, -u + 1} {
				put(new(big.Int).Add(base, big.NewInt(d)))
			}
		}
	}
	return arithDurs
}

// GenTime draws a time.Time fit for the given `format:` value ("" = default RFC 3339).
//   - unix* formats: (sec, nsec) boundary-dense over all of int64 x [0,1e9), any zone (the zone is not kept);
//   - every layout: instant with year in [1,9999] (local year too), zone UTC or a whole-minute fixed offset within ±23:59;
//     for layouts that print `MST` only UTC.
//
// No monotonic clock reading (values come from time.Unix).
func GenTime(r *rand.Rand, format string) time.Time {
	nsec := int64(0)
	switch r.IntN(5) {
	case 0:
	case 1:
		nsec = 999999999 - int64(r.IntN(3))
	case 2:
		nsec = []int64{1, 10, 100, 1000, 10000, 100000, 1000000, 10000000, 100000000, 999, 999999, 500000000, 123456789, 100000001}[r.IntN(14)]
	case 3:
		nsec = int64(r.IntN(1000)) * []int64{1, 1000, 1000000}[r.IntN(3)]
	default:
		nsec = int64(r.IntN(1000000000))
	}
	switch format {
	case "unix", "unixmilli", "unixmicro", "unixnano":
		if r.IntN(4) == 0 { // boundaries derived from the 64-bit arithmetic of the unix codecs
			bt := ArithBoundaryTimes()
			p := bt[r.IntN(len(bt))]
			return time.Unix(p[0], p[1]).In(genZones[r.IntN(len(genZones))])
		}
		return time.Unix(BoundaryInt64(r), nsec).In(genZones[r.IntN(len(genZones))])
	}
	var sec int64
	switch r.IntN(6) {
	case 0:
		sec = minRFC3339Sec + int64(r.IntN(100000))
	case 1:
		sec = maxRFC3339Sec - int64(r.IntN(100000))
	case 2:
		sec = int64(r.IntN(200000)) - 100000 // around the epoch
	case 3:
		sec = -62135596800 + 86400*366 + int64(r.IntN(1000)) // year 2: before Gregorian adoption, stresses the calendar code
	default:
		sec = minRFC3339Sec + r.Int64N(maxRFC3339Sec-minRFC3339Sec)
	}
	switch format {
	case "RFC822", "RFC822Z", "RFC850":
		// two-digit years: time.Parse maps yy to 1969..2068, and RFC850 prints the weekday of the full date
		sec = -31536000 + 86400 + r.Int64N(3124224000-3*86400) // 1969-01-02 .. 2068-12-30
	}
	t := time.Unix(sec, nsec)
	if timeFormatsMST[format] {
		return t.UTC()
	}
	return t.In(genZones[r.IntN(len(genZones))])
}

func (g *GenT) fill(r *rand.Rand, n *TNode, v reflect.Value, depth int) {
	switch n.Kind {
	case "bool":
		v.SetBool(r.IntN(2) == 0)
	case "int", "int8", "int16", "int32", "int64":
		x := BoundaryInt64(r)
		bits := n.T.Bits()
		if bits < 64 {
			switch r.IntN(4) {
			case 0:
				x = int64(1)<<(bits-1) - 1 - int64(r.IntN(3)) // max
			case 1:
				x = -(int64(1) << (bits - 1)) + int64(r.IntN(3)) // min
			default:
				x = x << (64 - bits) >> (64 - bits) // sign-extending truncation
			}
		}
		v.SetInt(x)
	case "uint", "uint8", "uint16", "uint32", "uint64", "uintptr":
		x := boundaryUint64(r)
		bits := n.T.Bits()
		if bits < 64 {
			if r.IntN(4) == 0 {
				x = uint64(1)<<bits - 1 - uint64(r.IntN(3))
			}
			x &= uint64(1)<<bits - 1
		}
		v.SetUint(x)
	case "float32":
		v.SetFloat(FiniteFloat(r, 32))
	case "float64":
		v.SetFloat(FiniteFloat(r, 64))
	case "string":
		s := ValidString(r)
		if n.LegacyQuoted && s == "null" {
			// v1 semantics (kept on purpose, arshal_default.go "permitted a quoted null"): under `string` the quoted
			// text "null" decodes as JSON null, so the Go string "null" is documented as not round-trippable there.
			s = "nul"
		}
		v.SetString(s)
	case "bytes":
		switch r.IntN(5) {
		case 0: // nil
		case 1:
			v.SetBytes([]byte{})
		default:
			b := make([]byte, r.IntN(20))
			if r.IntN(10) == 0 {
				b = make([]byte, 50+r.IntN(200))
			}
			for i := range b {
				b[i] = byte(r.Uint32())
			}
			v.SetBytes(b)
		}
	case "bytearray":
		for i := 0; i < n.Len; i++ {
			v.Index(i).SetUint(uint64(byte(r.Uint32())))
		}
	case "time":
		if r.IntN(8) == 0 && (n.Format == "" || n.Format == "RFC3339Nano" || n.Format == "RFC3339") {
			return // zero time.Time (year 1, UTC)
		}
		v.Set(reflect.ValueOf(GenTime(r, n.Format)))
	case "duration":
		v.SetInt(BoundaryInt64(r))
	case "slice":
		switch r.IntN(5) {
		case 0: // nil
		case 1:
			v.Set(reflect.MakeSlice(n.T, 0, 0))
		default:
			l := 1 + r.IntN(3)
			if depth >= 3 {
				l = 1 + r.IntN(2)
			}
			s := reflect.MakeSlice(n.T, l, l+r.IntN(2))
			for i := 0; i < l; i++ {
				g.fill(r, n.Elem, s.Index(i), depth+1)
			}
			v.Set(s)
		}
	case "array":
		for i := 0; i < n.Len; i++ {
			g.fill(r, n.Elem, v.Index(i), depth+1)
		}
	case "ptr":
		if r.IntN(4) == 0 {
			return
		}
		p := reflect.New(n.Elem.T)
		g.fill(r, n.Elem, p.Elem(), depth+1)
		v.Set(p)
	case "map":
		switch r.IntN(5) {
		case 0: // nil
		case 1:
			v.Set(reflect.MakeMap(n.T))
		default:
			m := reflect.MakeMap(n.T)
			if keys := g.pool(r, n.T.String()+n.KeyPrefix, n.Key.Kind, n.Key.T, n.KeyPrefix).pick(r); keys != nil {
				for _, k := range keys {
					e := reflect.New(n.Elem.T).Elem()
					g.fill(r, n.Elem, e, max(depth+1, 3)) // many members: keep each one small
					m.SetMapIndex(k, e)
				}
				v.Set(m)
				return
			}
			l := 1
			if g.f.MultiEntryMaps && r.IntN(2) == 0 {
				l = 2 + r.IntN(3)
			}
			for i := 0; i < l; i++ {
				k := reflect.New(n.Key.T).Elem()
				g.fill(r, n.Key, k, depth+1)
				if n.KeyPrefix != "" {
					k.SetString(n.KeyPrefix + k.String())
				}
				e := reflect.New(n.Elem.T).Elem()
				g.fill(r, n.Elem, e, depth+1)
				m.SetMapIndex(k, e)
			}
			v.Set(m)
		}
	case "struct":
		for i, f := range n.Fields {
			// leave some fields zero so that omitzero/omitempty have something to drop
			if (f.Omitzero || f.Omitempty) && r.IntN(3) == 0 {
				if f.Node.Kind == "slice" && r.IntN(2) == 0 {
					v.Field(i).Set(reflect.MakeSlice(f.Node.T, 0, 0)) // empty but not zero
				}
				if f.Node.Kind == "map" && r.IntN(2) == 0 {
					v.Field(i).Set(reflect.MakeMap(f.Node.T))
				}
				continue
			}
			if f.Embedded && f.Node.Kind == "ptr" && visibleFields(f.Node.Elem) == 0 {
				continue // an embedded *struct that contributes no member cannot be told from a nil one: keep it nil
			}
			g.fill(r, f.Node, v.Field(i), depth+1)
		}
	case "any":
		me := 1
		if g.f.MultiEntryMaps {
			me = 3
		}
		x := genAnyN(r, depth, me)
		if g.f.MultiEntryMaps && r.IntN(6) == 0 {
			x = g.pooledAny(r, "any", "", false)
		}
		if x != nil {
			v.Set(reflect.ValueOf(x))
		}
	case "raw":
		// a jsontext.Value holding a valid compact JSON text (rendered with default options from a canonical untyped value)
		if r.IntN(6) == 0 {
			return // nil: marshals as null (as an embed fallback: contributes nothing)
		}
		me := 1
		if g.f.MultiEntryMaps {
			me = 3
		}
		var x any
		switch {
		case n.RawObject:
			x = g.pooledAny(r, "raw"+n.KeyPrefix, n.KeyPrefix, true)
		case r.IntN(3) == 0:
			x = g.pooledAny(r, "raw", "", false)
		default:
			x = genAnyN(r, depth, me)
		}
		b, err := json.Marshal(x, json.Deterministic(true))
		if err != nil {
			fail("generator: cannot render a raw value: %v", err)
		}
		v.SetBytes(b)
	default:
		fail("generator: unknown kind %q", n.Kind)
	}
}

// GenAny draws a canonical untyped value: nil, bool, float64 (finite), string, []any, map[string]any.
func GenAny(r *rand.Rand, depth int) any { return genAnyN(r, depth, 3) }

func genAnyN(r *rand.Rand, depth int, maxEntries int) any {
	k := r.IntN(8)
	if depth >= 4 && k >= 5 {
		k = r.IntN(5)
	}
	switch k {
	case 0:
		return nil
	case 1:
		return r.IntN(2) == 0
	case 2, 3:
		return FiniteFloat(r, 64)
	case 4:
		return ValidString(r)
	case 5, 6:
		n := r.IntN(4)
		s := make([]any, n) // never nil: a nil []any inside an interface is not canonical (decodes as an empty slice)
		for i := range s {
			s[i] = genAnyN(r, depth+1, maxEntries)
		}
		return s
	default:
		n := r.IntN(maxEntries + 1)
		m := make(map[string]any, n)
		for i := 0; i < n; i++ {
			m[ValidString(r)] = genAnyN(r, depth+1, maxEntries)
		}
		return m
	}
}

// ---------------------------------------------------------------- equality

// EqMode fixes the sense of "equal" used by GenT.Equal.
//
// Always: bools/ints/uints/strings by ==; floats by BIT PATTERN (so -0 != +0, and float32 compared as
// float32 bits); a nil slice/map equals an empty one; arrays/slices element-wise; maps by key lookup
// (Go ==, so +0/-0 keys coincide); pointers by pointee; a nil pointer equals a nil pointer only —
// except that a pointer whose pointee prints as JSON null (nil pointer; nil slice/map under NilAsNull)
// equals a nil pointer, because JSON null decodes to the nil pointer; structs field-wise, skipping
// ignored (`json:"-"`) and shadowed fields.
//
// time.Time: same instant (Unix seconds and nanoseconds) AND same zone offset in seconds
// (time.Time.Zone) for the default/RFC3339Nano representation; same instant only (the result is in
// UTC) for unix/unixmilli/unixmicro/unixnano; not compared for the other layouts (they drop
// sub-second digits, the date, the time of day or the zone).  The location NAME and pointer are never
// compared (zone abbreviations do not survive), nor is the monotonic reading (generated values have none).
//
// jsontext.Value: compared by RFC 8785 canonical text (escaping/whitespace/member order are not part of the value),
// empty == null (== {} for an embed fallback).
//
// `any`: dynamic types must agree and contents are compared recursively; under StringifiedAny a float64
// is expected to come back as the Go string of its JSON number (StringifyNumbers quotes numbers and a
// JSON string decodes into `any` as a string).
type EqMode struct {
	NilAsNull     bool // nil slices/maps print as null under the options in use (FormatNilSliceAsNull/FormatNilMapAsNull, emitnull)
	StringifiedAny bool // numbers in `any` come back as strings (StringifyNumbers)
	FormatFloat   func(f float64) string
}

func (g *GenT) Equal(a, b reflect.Value, m EqMode) string { return eqNode(g.Root, a, b, m, "$") }

func printsNull(n *TNode, v reflect.Value, m EqMode) bool {
	switch n.Kind {
	case "ptr":
		return v.IsNil() || printsNull(n.Elem, v.Elem(), m)
	case "slice", "map", "bytes":
		return v.IsNil() && (m.NilAsNull || n.Format == "emitnull") && n.Format != "emitempty"
	case "any":
		return v.IsNil()
	case "raw":
		return v.Len() == 0 || string(v.Bytes()) == "null"
	}
	return false
}

// canonRaw is the meaning of a jsontext.Value for comparison: RFC 8785 canonical text (escaping, whitespace and
// member order are not part of the value); an empty Value is null (as an embed fallback: the empty object).
func canonRaw(n *TNode, b []byte) string {
	if len(b) == 0 || string(b) == "null" {
		if n.RawObject {
			return "{}"
		}
		return "null"
	}
	v := jsontext.Value(bytes.Clone(b))
	if err := v.Canonicalize(); err != nil {
		return string(b)
	}
	return string(v)
}

func eqNode(n *TNode, a, b reflect.Value, m EqMode, path string) string {
	switch n.Kind {
	case "bool":
		if a.Bool() != b.Bool() {
			return path
		}
	case "int", "int8", "int16", "int32", "int64", "duration":
		if a.Int() != b.Int() {
			return path
		}
	case "uint", "uint8", "uint16", "uint32", "uint64", "uintptr":
		if a.Uint() != b.Uint() {
			return path
		}
	case "float32":
		if math.Float32bits(float32(a.Float())) != math.Float32bits(float32(b.Float())) {
			return path
		}
	case "float64":
		if math.Float64bits(a.Float()) != math.Float64bits(b.Float()) {
			return path
		}
	case "string":
		if a.String() != b.String() {
			return path
		}
	case "bytes":
		if string(a.Bytes()) != string(b.Bytes()) {
			return path
		}
	case "bytearray":
		for i := 0; i < n.Len; i++ {
			if a.Index(i).Uint() != b.Index(i).Uint() {
				return fmt.Sprintf("%s[%d]", path, i)
			}
		}
	case "time":
		ta, tb := a.Interface().(time.Time), b.Interface().(time.Time)
		switch n.Format {
		case "", "RFC3339Nano":
			_, oa := ta.Zone()
			_, ob := tb.Zone()
			if ta.Unix() != tb.Unix() || ta.Nanosecond() != tb.Nanosecond() || oa != ob {
				return path
			}
		case "unix", "unixmilli", "unixmicro", "unixnano":
			_, ob := tb.Zone()
			if ta.Unix() != tb.Unix() || ta.Nanosecond() != tb.Nanosecond() || ob != 0 {
				return path
			}
		}
	case "slice":
		if a.Len() != b.Len() {
			return path + ".len"
		}
		for i := 0; i < a.Len(); i++ {
			if d := eqNode(n.Elem, a.Index(i), b.Index(i), m, fmt.Sprintf("%s[%d]", path, i)); d != "" {
				return d
			}
		}
	case "array":
		for i := 0; i < n.Len; i++ {
			if d := eqNode(n.Elem, a.Index(i), b.Index(i), m, fmt.Sprintf("%s[%d]", path, i)); d != "" {
				return d
			}
		}
	case "map":
		if a.Len() != b.Len() {
			return path + ".len"
		}
		for it := a.MapRange(); it.Next(); {
			bv := b.MapIndex(it.Key())
			if !bv.IsValid() {
				return fmt.Sprintf("%s[%v]:missing", path, it.Key())
			}
			// map keys: Go == identifies +0 and -0; check the key's bit pattern too for floats
			if d := eqNode(n.Elem, it.Value(), bv, m, fmt.Sprintf("%s[%v]", path, it.Key())); d != "" {
				return d
			}
		}
	case "ptr":
		an, bn := printsNull(n, a, m), printsNull(n, b, m)
		if an || bn {
			if an != bn {
				return path + ":nil"
			}
			return ""
		}
		return eqNode(n.Elem, a.Elem(), b.Elem(), m, path+"*")
	case "struct":
		for i, f := range n.Fields {
			if f.Ignored || f.Shadowed {
				continue
			}
			if f.Embedded && f.Node.Kind == "ptr" {
				// an embedded *struct is allocated by Unmarshal only when one of its members is present: a non-nil
				// pointer whose struct contributes no member is indistinguishable from nil in JSON
				an := a.Field(i).IsNil() || !emitsMembers(f.Node.Elem, a.Field(i).Elem())
				bn := b.Field(i).IsNil() || !emitsMembers(f.Node.Elem, b.Field(i).Elem())
				if an || bn {
					if an != bn {
						return path + "." + f.GoName + ":nil"
					}
					continue
				}
			}
			if d := eqNode(f.Node, a.Field(i), b.Field(i), m, path+"."+f.GoName); d != "" {
				return d
			}
		}
	case "any":
		return eqAny(a.Interface(), b.Interface(), m, path)
	case "raw":
		if canonRaw(n, a.Bytes()) != canonRaw(n, b.Bytes()) {
			return path
		}
	}
	return ""
}

// emitsMembers reports whether a struct value (without omit options) writes at least one JSON member.
func emitsMembers(n *TNode, v reflect.Value) bool {
	for i, f := range n.Fields {
		switch {
		case f.Embedded && f.Node.Kind == "ptr":
			if !v.Field(i).IsNil() && emitsMembers(f.Node.Elem, v.Field(i).Elem()) {
				return true
			}
		case f.Embedded:
			if emitsMembers(f.Node, v.Field(i)) {
				return true
			}
		case !f.Ignored && !f.Shadowed:
			return true
		}
	}
	return false
}

func eqAny(a, b any, m EqMode, path string) string {
	switch x := a.(type) {
	case nil:
		if b != nil {
			return path
		}
	case bool:
		if y, ok := b.(bool); !ok || x != y {
			return path
		}
	case float64:
		if m.StringifiedAny {
			if y, ok := b.(string); !ok || y != m.FormatFloat(x) {
				return path
			}
			return ""
		}
		if y, ok := b.(float64); !ok || math.Float64bits(x) != math.Float64bits(y) {
			return path
		}
	case string:
		if y, ok := b.(string); !ok || x != y {
			return path
		}
	case []any:
		y, ok := b.([]any)
		if !ok || len(x) != len(y) {
			return path
		}
		for i := range x {
			if d := eqAny(x[i], y[i], m, fmt.Sprintf("%s[%d]", path, i)); d != "" {
				return d
			}
		}
	case map[string]any:
		y, ok := b.(map[string]any)
		if !ok || len(x) != len(y) {
			return path
		}
		for k, xv := range x {
			yv, ok := y[k]
			if !ok {
				return fmt.Sprintf("%s[%q]:missing", path, k)
			}
			if d := eqAny(xv, yv, m, fmt.Sprintf("%s[%q]", path, k)); d != "" {
				return d
			}
		}
	default:
		return path + ":non-canonical"
	}
	return ""
}

// GoSyntax renders a value for reports: like %#v but floats as exact bit patterns, times as (sec,nsec,offset),
// pointers followed, map entries sorted.
func GoSyntax(v reflect.Value) string {
	var sb strings.Builder
	goSyntax(&sb, v, 0)
	return sb.String()
}

func goSyntax(sb *strings.Builder, v reflect.Value, depth int) {
	if depth > 12 {
		sb.WriteString("…")
		return
	}
	if !v.IsValid() {
		sb.WriteString("nil")
		return
	}
	if v.Type() == timeType {
		t := v.Interface().(time.Time)
		_, off := t.Zone()
		fmt.Fprintf(sb, "time.Unix(%d,%d)@%+ds", t.Unix(), t.Nanosecond(), off)
		return
	}
	switch v.Kind() {
	case reflect.Bool:
		fmt.Fprint(sb, v.Bool())
	case reflect.Int, reflect.Int8, reflect.Int16, reflect.Int32, reflect.Int64:
		fmt.Fprintf(sb, "%s(%d)", v.Type(), v.Int())
	case reflect.Uint, reflect.Uint8, reflect.Uint16, reflect.Uint32, reflect.Uint64, reflect.Uintptr:
		fmt.Fprintf(sb, "%s(%d)", v.Type(), v.Uint())
	case reflect.Float32:
		fmt.Fprintf(sb, "f32(0x%08x=%v)", math.Float32bits(float32(v.Float())), v.Float())
	case reflect.Float64:
		fmt.Fprintf(sb, "f64(0x%016x=%v)", math.Float64bits(v.Float()), v.Float())
	case reflect.String:
		fmt.Fprintf(sb, "%q", v.String())
	case reflect.Slice:
		if v.IsNil() {
			fmt.Fprintf(sb, "%s(nil)", shortType(v.Type()))
			return
		}
		if v.Type().Elem().Kind() == reflect.Uint8 {
			fmt.Fprintf(sb, "[]byte(%q)", v.Bytes())
			return
		}
		fallthrough
	case reflect.Array:
		sb.WriteString("[")
		for i := 0; i < v.Len(); i++ {
			if i > 0 {
				sb.WriteString(", ")
			}
			goSyntax(sb, v.Index(i), depth+1)
		}
		sb.WriteString("]")
	case reflect.Map:
		if v.IsNil() {
			sb.WriteString("map(nil)")
			return
		}
		var ents []string
		for it := v.MapRange(); it.Next(); {
			var e strings.Builder
			goSyntax(&e, it.Key(), depth+1)
			e.WriteString(": ")
			goSyntax(&e, it.Value(), depth+1)
			ents = append(ents, e.String())
		}
		sort.Strings(ents)
		sb.WriteString("map{" + strings.Join(ents, ", ") + "}")
	case reflect.Pointer:
		if v.IsNil() {
			sb.WriteString("nil")
			return
		}
		sb.WriteString("&")
		goSyntax(sb, v.Elem(), depth+1)
	case reflect.Interface:
		if v.IsNil() {
			sb.WriteString("any(nil)")
			return
		}
		sb.WriteString("any(")
		goSyntax(sb, v.Elem(), depth+1)
		sb.WriteString(")")
	case reflect.Struct:
		sb.WriteString("{")
		for i := 0; i < v.NumField(); i++ {
			if i > 0 {
				sb.WriteString(", ")
			}
			sb.WriteString(v.Type().Field(i).Name + ": ")
			goSyntax(sb, v.Field(i), depth+1)
		}
		sb.WriteString("}")
	default:
		fmt.Fprintf(sb, "%v", v)
	}
}

func shortType(t reflect.Type) string {
	s := t.String()
	if len(s) > 40 {
		return s[:40] + "…"
	}
	return s
}
