package main

// C12 — Reformatting a value never changes what it means.
//
// Predicates evaluated on the implementation (jsontext.Value.Format / Compact / Indent and
// jsontext.AppendFormat), for byte strings x option lists drawn from all 13 formatting options:
//
//	(i)   ok  <=>  the input is valid under the EFFECTIVE options (IsValid and an independent validator)
//	(ii)  the output is valid under the same options
//	(iii) meaning preserved: an independent tokenizer/tree parser of this file reads input and output;
//	      structure identical, strings/numbers/member order differ only as the options allow, and the
//	      whitespace of the output is exactly what the options prescribe (reference renderer)
//	(iv)  fixed point: the same call on the output returns identical bytes and does not write to the
//	      buffer (slice header unchanged; a read-only mmap page faults on any write)
//	(v)   on error the Value is untouched; AppendFormat returns dst with all of src appended
//
// Correspondence (Tie B): Value.Compact / Value.Indent (raw-preserving defaults) against the Lean
// model `JsonV.Fmt.compact` / `renderWith` through the oracle family `fmt`.

import (
	"bytes"
	"encoding/json"
	"fmt"
	"math"
	"math/big"
	"math/rand/v2"
	"os"
	"runtime/debug"
	"strconv"
	"strings"
	"sync"
	"syscall"
	"unicode/utf16"
	"unicode/utf8"
	"unsafe"

	"github.com/go-json-experiment/json/jsontext"
)

func init() { register("C12", runC12) }

// ---------------------------------------------------------------------------------------------
// options

const (
	oDup = iota
	oUTF8
	oPreserve
	oInts
	oFloats
	oReorder
	oHTML
	oJS
	oMultiline
	oSpColon
	oSpComma
	oIndent
	oPrefix
	nOpts
)

var optNames = [nOpts]string{"AllowDuplicateNames", "AllowInvalidUTF8", "PreserveRawStrings", "CanonicalizeRawInts",
	"CanonicalizeRawFloats", "ReorderRawObjects", "EscapeForHTML", "EscapeForJS", "Multiline", "SpaceAfterColon",
	"SpaceAfterComma", "WithIndent", "WithIndentPrefix"}

var boolMk = [11]func(bool) jsontext.Options{jsontext.AllowDuplicateNames, jsontext.AllowInvalidUTF8,
	jsontext.PreserveRawStrings, jsontext.CanonicalizeRawInts, jsontext.CanonicalizeRawFloats, jsontext.ReorderRawObjects,
	jsontext.EscapeForHTML, jsontext.EscapeForJS, jsontext.Multiline, jsontext.SpaceAfterColon, jsontext.SpaceAfterComma}

// optItem is one option constructor call in the caller's list.
type optItem struct {
	k int
	b bool
	s string
}

func (it optItem) String() string {
	if it.k < oIndent {
		return fmt.Sprintf("%s(%v)", optNames[it.k], it.b)
	}
	return fmt.Sprintf("%s(%q)", optNames[it.k], it.s)
}

func itemsString(items []optItem) string {
	var sb strings.Builder
	for i, it := range items {
		if i > 0 {
			sb.WriteByte(' ')
		}
		if it.k < oIndent {
			fmt.Fprintf(&sb, "%d=%v", it.k, it.b)
		} else {
			fmt.Fprintf(&sb, "%d=%s", it.k, hx([]byte(it.s)))
		}
	}
	return sb.String()
}

func parseItems(s string) []optItem {
	var items []optItem
	for _, w := range strings.Fields(s) {
		kv := strings.SplitN(w, "=", 2)
		k, err := strconv.Atoi(kv[0])
		if err != nil || len(kv) != 2 || k < 0 || k >= nOpts {
			fail("bad option item %q", w)
		}
		if k < oIndent {
			items = append(items, optItem{k: k, b: kv[1] == "true"})
		} else {
			items = append(items, optItem{k: k, s: string(unhx(kv[1]))})
		}
	}
	return items
}

func mkOptions(items []optItem) []jsontext.Options {
	out := make([]jsontext.Options, len(items))
	for i, it := range items {
		switch {
		case it.k < oIndent:
			out[i] = boolMk[it.k](it.b)
		case it.k == oIndent:
			out[i] = jsontext.WithIndent(it.s)
		default:
			out[i] = jsontext.WithIndentPrefix(it.s)
		}
	}
	return out
}

// eff is the effective option set of one call, computed by this file's own reading of the
// documentation: later options override earlier ones; WithIndent/WithIndentPrefix imply Multiline;
// Multiline defaults SpaceAfterColon=true, SpaceAfterComma=false, indent "\t" when they are not specified.
type eff struct {
	has            [nOpts]bool
	val            [11]bool
	indent, prefix string
}

func (e *eff) apply(it optItem) {
	switch {
	case it.k < oIndent:
		e.has[it.k], e.val[it.k] = true, it.b
	case it.k == oIndent:
		e.has[oMultiline], e.val[oMultiline] = true, true
		e.has[oIndent], e.indent = true, it.s
	default:
		e.has[oMultiline], e.val[oMultiline] = true, true
		e.has[oPrefix], e.prefix = true, it.s
	}
}

func (e *eff) initMultiline() {
	if !e.val[oMultiline] {
		return
	}
	if !e.has[oSpColon] {
		e.has[oSpColon], e.val[oSpColon] = true, true
	}
	if !e.has[oSpComma] {
		e.has[oSpComma], e.val[oSpComma] = true, false
	}
	if !e.has[oIndent] {
		e.has[oIndent], e.indent = true, "\t"
	}
}

const (
	entFormat = iota
	entCompact
	entIndent
	entAppend
	entAppendStr
	nEntries
)

var entryNames = [nEntries]string{"Value.Format", "Value.Compact", "Value.Indent", "AppendFormat[[]byte]", "AppendFormat[string]"}

func baseItems(entry int) []optItem {
	switch entry {
	case entCompact:
		return []optItem{{k: oDup, b: true}, {k: oUTF8, b: true}, {k: oPreserve, b: true}}
	case entIndent:
		return []optItem{{k: oDup, b: true}, {k: oUTF8, b: true}, {k: oPreserve, b: true}, {k: oMultiline, b: true}}
	}
	return nil
}

// effDoc: the documented reading "X is equivalent to calling Format with the following options …
// Any options specified by the caller are applied after the initial set".
func effDoc(entry int, items []optItem) eff {
	var e eff
	for _, it := range baseItems(entry) {
		e.apply(it)
	}
	for _, it := range items {
		e.apply(it)
	}
	e.initMultiline()
	return e
}

// effActual: what value.go does — the initial set goes through the encoder reset (which applies the
// Multiline defaults), the caller's options are joined afterwards WITHOUT re-applying the defaults.
// It differs from effDoc only in whitespace (e.g. Compact(Multiline(true)) indents with "" and no space
// after the colon).  Validity, strings, numbers and order are identical in both readings.
func effActual(entry int, items []optItem) eff {
	var e eff
	base := baseItems(entry)
	if base == nil {
		return effDoc(entry, items)
	}
	for _, it := range base {
		e.apply(it)
	}
	e.initMultiline()
	for _, it := range items {
		e.apply(it)
	}
	return e
}

func (e *eff) sameWhitespace(f *eff) bool {
	if e.val[oMultiline] != f.val[oMultiline] || e.val[oSpColon] != f.val[oSpColon] || e.val[oSpComma] != f.val[oSpComma] {
		return false
	}
	return !e.val[oMultiline] || (e.indent == f.indent && e.prefix == f.prefix)
}

// ---------------------------------------------------------------------------------------------
// independent tokenizer / tree parser

type node struct {
	kind byte // 'n' 't' 'f' '"' '0' '{' '['
	raw  []byte
	kids []*node // array: elements; object: name, value, name, value …
}

type parser struct {
	b          []byte
	i          int
	strictUTF8 bool
	rejectDup  bool
	ntok       int
	maxDepth   int
}

const c12MaxDepth = 10000

func isWS(c byte) bool { return c == ' ' || c == '\t' || c == '\n' || c == '\r' }

func (p *parser) ws() {
	for p.i < len(p.b) && isWS(p.b[p.i]) {
		p.i++
	}
}

func isHex(c byte) bool {
	return '0' <= c && c <= '9' || 'a' <= c && c <= 'f' || 'A' <= c && c <= 'F'
}

func hex4(b []byte) (rune, bool) {
	if len(b) < 4 {
		return 0, false
	}
	var v rune
	for _, c := range b[:4] {
		switch {
		case '0' <= c && c <= '9':
			v = v<<4 | rune(c-'0')
		case 'a' <= c && c <= 'f':
			v = v<<4 | rune(c-'a'+10)
		case 'A' <= c && c <= 'F':
			v = v<<4 | rune(c-'A'+10)
		default:
			return 0, false
		}
	}
	return v, true
}

// scanString returns the length of the string literal at the start of b (0 if not a valid literal).
func scanString(b []byte, strictUTF8 bool) int {
	if len(b) == 0 || b[0] != '"' {
		return 0
	}
	i := 1
	for i < len(b) {
		c := b[i]
		switch {
		case c == '"':
			return i + 1
		case c < 0x20:
			return 0
		case c == '\\':
			if i+1 >= len(b) {
				return 0
			}
			switch b[i+1] {
			case '"', '\\', '/', 'b', 'f', 'n', 'r', 't':
				i += 2
			case 'u':
				r, ok := hex4(b[i+2:])
				if !ok {
					return 0
				}
				i += 6
				if strictUTF8 && 0xD800 <= r && r <= 0xDFFF {
					if r >= 0xDC00 { // lone low surrogate
						return 0
					}
					if i+6 > len(b) || b[i] != '\\' || b[i+1] != 'u' {
						return 0
					}
					r2, ok := hex4(b[i+2:])
					if !ok || r2 < 0xDC00 || r2 > 0xDFFF {
						return 0
					}
					i += 6
				}
			default:
				return 0
			}
		case c < 0x80:
			i++
		default:
			r, n := utf8.DecodeRune(b[i:])
			if r == utf8.RuneError && n == 1 {
				if strictUTF8 {
					return 0
				}
				i++
			} else {
				i += n
			}
		}
	}
	return 0
}

func isDigit(c byte) bool { return '0' <= c && c <= '9' }

// scanNumber returns the length of the longest JSON number at the start of b, or 0 when the text
// starts like a number but is cut off at a place where the grammar needs a digit.
func scanNumber(b []byte) int {
	i := 0
	if i < len(b) && b[i] == '-' {
		i++
	}
	if i >= len(b) || !isDigit(b[i]) {
		return 0
	}
	if b[i] == '0' {
		i++
	} else {
		for i < len(b) && isDigit(b[i]) {
			i++
		}
	}
	if i < len(b) && b[i] == '.' {
		i++
		if i >= len(b) || !isDigit(b[i]) {
			return 0
		}
		for i < len(b) && isDigit(b[i]) {
			i++
		}
	}
	if i < len(b) && (b[i] == 'e' || b[i] == 'E') {
		i++
		if i < len(b) && (b[i] == '+' || b[i] == '-') {
			i++
		}
		if i >= len(b) || !isDigit(b[i]) {
			return 0
		}
		for i < len(b) && isDigit(b[i]) {
			i++
		}
	}
	return i
}

func (p *parser) value(depth int) *node {
	if p.i >= len(p.b) {
		return nil
	}
	p.ntok++
	switch c := p.b[p.i]; {
	case c == 'n' || c == 't' || c == 'f':
		lit := "null"
		if c == 't' {
			lit = "true"
		} else if c == 'f' {
			lit = "false"
		}
		if !bytes.HasPrefix(p.b[p.i:], []byte(lit)) {
			return nil
		}
		p.i += len(lit)
		return &node{kind: c, raw: p.b[p.i-len(lit) : p.i]}
	case c == '"':
		n := scanString(p.b[p.i:], p.strictUTF8)
		if n == 0 {
			return nil
		}
		p.i += n
		return &node{kind: '"', raw: p.b[p.i-n : p.i]}
	case c == '-' || isDigit(c):
		n := scanNumber(p.b[p.i:])
		if n == 0 {
			return nil
		}
		p.i += n
		return &node{kind: '0', raw: p.b[p.i-n : p.i]}
	case c == '[' || c == '{':
		if depth+1 > c12MaxDepth {
			return nil
		}
		if depth+1 > p.maxDepth {
			p.maxDepth = depth + 1
		}
		closer := byte(']')
		if c == '{' {
			closer = '}'
		}
		nd := &node{kind: c}
		p.i++
		p.ws()
		if p.i < len(p.b) && p.b[p.i] == closer {
			p.i++
			p.ntok++
			return nd
		}
		var seen map[string]bool
		for {
			p.ws()
			if c == '{' {
				if p.i >= len(p.b) || p.b[p.i] != '"' {
					return nil
				}
				name := p.value(depth + 1)
				if name == nil {
					return nil
				}
				if p.rejectDup {
					if seen == nil {
						seen = map[string]bool{}
					}
					k := string(unescape(name.raw))
					if seen[k] {
						return nil
					}
					seen[k] = true
				}
				nd.kids = append(nd.kids, name)
				p.ws()
				if p.i >= len(p.b) || p.b[p.i] != ':' {
					return nil
				}
				p.i++
				p.ws()
			}
			v := p.value(depth + 1)
			if v == nil {
				return nil
			}
			nd.kids = append(nd.kids, v)
			p.ws()
			if p.i >= len(p.b) {
				return nil
			}
			if p.b[p.i] == closer {
				p.i++
				p.ntok++
				return nd
			}
			if p.b[p.i] != ',' {
				return nil
			}
			p.i++
		}
	}
	return nil
}

type parsed struct {
	root     *node
	ntok     int
	maxDepth int
}

// parseText parses a complete JSON text; nil root when it is not valid under the two validity options.
func parseText(b []byte, allowDup, allowInvalidUTF8 bool) parsed {
	p := &parser{b: b, strictUTF8: !allowInvalidUTF8, rejectDup: !allowDup}
	p.ws()
	root := p.value(0)
	if root == nil {
		return parsed{}
	}
	p.ws()
	if p.i != len(b) {
		return parsed{}
	}
	return parsed{root, p.ntok, p.maxDepth}
}

// unescape decodes a (lexically valid) string literal: escapes resolved, surrogate pairs combined,
// lone surrogates and bytes of invalid UTF-8 replaced by U+FFFD.
func unescape(raw []byte) []byte {
	out := make([]byte, 0, len(raw))
	b := raw[1 : len(raw)-1]
	for i := 0; i < len(b); {
		c := b[i]
		switch {
		case c == '\\':
			switch b[i+1] {
			case 'b':
				out = append(out, '\b')
			case 'f':
				out = append(out, '\f')
			case 'n':
				out = append(out, '\n')
			case 'r':
				out = append(out, '\r')
			case 't':
				out = append(out, '\t')
			case 'u':
				r, _ := hex4(b[i+2:])
				i += 6
				if 0xD800 <= r && r <= 0xDBFF && i+6 <= len(b) && b[i] == '\\' && b[i+1] == 'u' {
					if r2, ok := hex4(b[i+2:]); ok && 0xDC00 <= r2 && r2 <= 0xDFFF {
						r = 0x10000 + (r-0xD800)<<10 + (r2 - 0xDC00)
						i += 6
					}
				}
				if 0xD800 <= r && r <= 0xDFFF {
					r = 0xFFFD
				}
				out = utf8.AppendRune(out, r)
				continue
			default:
				out = append(out, b[i+1])
			}
			i += 2
		case c < 0x80:
			out = append(out, c)
			i++
		default:
			r, n := utf8.DecodeRune(b[i:])
			out = utf8.AppendRune(out, r) // RuneError,1 -> U+FFFD
			i += n
		}
	}
	return out
}

func utf16Less(a, b []byte) int {
	x, y := utf16.Encode([]rune(string(a))), utf16.Encode([]rune(string(b)))
	for i := 0; i < len(x) && i < len(y); i++ {
		if x[i] != y[i] {
			if x[i] < y[i] {
				return -1
			}
			return 1
		}
	}
	return len(x) - len(y)
}

// ---------------------------------------------------------------------------------------------
// reference renderer: whitespace exactly as the options prescribe, tokens taken verbatim

func (e *eff) nl(dst []byte, level int) []byte {
	if !e.val[oMultiline] {
		return dst
	}
	dst = append(dst, '\n')
	dst = append(dst, e.prefix...)
	for ; level > 0; level-- {
		dst = append(dst, e.indent...)
	}
	return dst
}

func render(dst []byte, n *node, e *eff, level int) []byte {
	switch n.kind {
	case '[', '{':
		dst = append(dst, n.kind)
		closer := byte(n.kind + 2)
		if len(n.kids) == 0 {
			return append(dst, closer)
		}
		for i := 0; i < len(n.kids); i++ {
			if i > 0 {
				dst = append(dst, ',')
				if e.val[oSpComma] {
					dst = append(dst, ' ')
				}
			}
			dst = e.nl(dst, level+1)
			if n.kind == '{' {
				dst = append(dst, n.kids[i].raw...)
				dst = append(dst, ':')
				if e.val[oSpColon] {
					dst = append(dst, ' ')
				}
				i++
			}
			dst = render(dst, n.kids[i], e, level+1)
		}
		dst = e.nl(dst, level)
		return append(dst, closer)
	default:
		return append(dst, n.raw...)
	}
}

// ---------------------------------------------------------------------------------------------
// meaning comparison

// exactFloat64 rounds the decimal literal to the nearest float64 (ties to even) with exact rational
// arithmetic; out-of-range magnitudes are decided from the decimal exponent.
func exactFloat64(s []byte) float64 {
	neg := false
	i := 0
	if s[0] == '-' {
		neg, i = true, 1
	}
	var digits []byte
	fracLen := 0
	for ; i < len(s) && isDigit(s[i]); i++ {
		digits = append(digits, s[i])
	}
	if i < len(s) && s[i] == '.' {
		for i++; i < len(s) && isDigit(s[i]); i++ {
			digits = append(digits, s[i])
			fracLen++
		}
	}
	exp := 0
	if i < len(s) && (s[i] == 'e' || s[i] == 'E') {
		i++
		eneg := false
		if s[i] == '+' || s[i] == '-' {
			eneg = s[i] == '-'
			i++
		}
		for ; i < len(s); i++ {
			if exp < 1<<24 {
				exp = exp*10 + int(s[i]-'0')
			}
		}
		if eneg {
			exp = -exp
		}
	}
	digits = bytes.TrimLeft(digits, "0")
	sign := 1.0
	if neg {
		sign = -1
	}
	if len(digits) == 0 {
		return sign * 0
	}
	decExp := exp - fracLen
	switch adj := len(digits) + decExp; {
	case adj > 400:
		return math.Inf(int(sign))
	case adj < -400:
		return sign * 0
	}
	m, _ := new(big.Int).SetString(string(digits), 10)
	r := new(big.Rat).SetInt(m)
	p := new(big.Int).Exp(big.NewInt(10), big.NewInt(int64(abs(decExp))), nil)
	if decExp >= 0 {
		r.Mul(r, new(big.Rat).SetInt(p))
	} else {
		r.Quo(r, new(big.Rat).SetInt(p))
	}
	f, _ := r.Float64()
	return sign * f
}

func abs(x int) int {
	if x < 0 {
		return -x
	}
	return x
}

// es6Number lays out the shortest round-trip digits of v per ECMA-262 Number::toString (RFC 8785 3.2.2.3).
func es6Number(v float64) string {
	if v == 0 {
		return "0"
	}
	s := strconv.FormatFloat(math.Abs(v), 'e', -1, 64) // d[.ddd]e±XX : shortest digits (strconv is a parameter)
	mant, expS, _ := strings.Cut(s, "e")
	x, _ := strconv.Atoi(expS)
	digits := strings.Replace(mant, ".", "", 1)
	k, n := len(digits), x+1
	var out string
	switch {
	case k <= n && n <= 21:
		out = digits + strings.Repeat("0", n-k)
	case 0 < n && n <= 21:
		out = digits[:n] + "." + digits[n:]
	case -6 < n && n <= 0:
		out = "0." + strings.Repeat("0", -n) + digits
	default:
		out = digits[:1]
		if k > 1 {
			out += "." + digits[1:]
		}
		if n-1 >= 0 {
			out += "e+" + strconv.Itoa(n-1)
		} else {
			out += "e-" + strconv.Itoa(1-n)
		}
	}
	if v < 0 {
		out = "-" + out
	}
	return out
}

func numEquiv(in, out []byte, e *eff) string {
	canon := func() string {
		v := exactFloat64(in)
		switch {
		case v == 0:
			v = 0
		case math.IsInf(v, +1):
			v = math.MaxFloat64
		case math.IsInf(v, -1):
			v = -math.MaxFloat64
		}
		if scanNumber(out) != len(out) {
			return "canonical number is not a number"
		}
		if w := exactFloat64(out); math.Float64bits(w) != math.Float64bits(v) {
			return fmt.Sprintf("number value changed: %s -> %s", in, out)
		}
		if want := es6Number(v); want != string(out) {
			return fmt.Sprintf("number not in RFC 8785 form: %s -> %s, want %s", in, out, want)
		}
		return ""
	}
	same := func() string {
		if !bytes.Equal(in, out) {
			return fmt.Sprintf("number respelled without a canonicalize option applying: %s -> %s", in, out)
		}
		return ""
	}
	if !e.val[oInts] && !e.val[oFloats] {
		return same()
	}
	if string(in) == "-0" {
		return canon()
	}
	if bytes.ContainsAny(in, ".eE") {
		if !e.val[oFloats] {
			return same()
		}
		return canon()
	}
	if !e.val[oInts] || len(in) < 16 {
		return same()
	}
	return canon()
}

var (
	htmlRepl = strings.NewReplacer("<", "\\u003c", ">", "\\u003e", "&", "\\u0026")
	jsRepl   = strings.NewReplacer("\xe2\x80\xa8", "\\u2028", "\xe2\x80\xa9", "\\u2029")
)

func strEquiv(in, out []byte, e *eff) string {
	esc := e.val[oHTML] || e.val[oJS]
	if e.val[oPreserve] {
		want := string(in)
		if e.val[oHTML] {
			want = htmlRepl.Replace(want)
		}
		if e.val[oJS] {
			want = jsRepl.Replace(want)
		}
		if want != string(out) {
			if !esc {
				return fmt.Sprintf("string respelled under PreserveRawStrings: %q -> %q", in, out)
			}
			return fmt.Sprintf("raw string not preserved up to the escape options: %q -> %q want %q", in, out, want)
		}
		return ""
	}
	if !bytes.Equal(unescape(in), unescape(out)) {
		return fmt.Sprintf("string value changed: %q -> %q", in, out)
	}
	if !utf8.Valid(out) {
		return fmt.Sprintf("invalid UTF-8 not replaced by U+FFFD: %q -> %q", in, out)
	}
	if e.val[oHTML] && bytes.ContainsAny(out, "<>&") {
		return fmt.Sprintf("EscapeForHTML not honoured: %q", out)
	}
	if e.val[oJS] && (bytes.Contains(out, []byte("\xe2\x80\xa8")) || bytes.Contains(out, []byte("\xe2\x80\xa9"))) {
		return fmt.Sprintf("EscapeForJS not honoured: %q", out)
	}
	return ""
}

// sameMeaning compares the input tree with the output tree under the permitted differences.
func sameMeaning(in, out *node, e *eff) string {
	if in.kind != out.kind {
		return fmt.Sprintf("kind changed %c -> %c", in.kind, out.kind)
	}
	switch in.kind {
	case 'n', 't', 'f':
		return ""
	case '"':
		return strEquiv(in.raw, out.raw, e)
	case '0':
		return numEquiv(in.raw, out.raw, e)
	case '[':
		if len(in.kids) != len(out.kids) {
			return "array length changed"
		}
		for i := range in.kids {
			if s := sameMeaning(in.kids[i], out.kids[i], e); s != "" {
				return s
			}
		}
		return ""
	}
	if len(in.kids) != len(out.kids) {
		return "object size changed"
	}
	if !e.val[oReorder] {
		for i := range in.kids {
			if s := sameMeaning(in.kids[i], out.kids[i], e); s != "" {
				return s
			}
		}
		return ""
	}
	// ReorderRawObjects: the output members are a permutation of the input members, in ascending
	// UTF-16 order of the (unescaped) names.
	nm := len(in.kids) / 2
	used := make([]bool, nm)
	var first string
	for j := 0; j < nm; j++ {
		if j > 0 && utf16Less(unescape(out.kids[2*j-2].raw), unescape(out.kids[2*j].raw)) > 0 {
			return fmt.Sprintf("members not sorted by UTF-16 order of names: %q before %q", out.kids[2*j-2].raw, out.kids[2*j].raw)
		}
		found := false
		for i := 0; i < nm && !found; i++ {
			if used[i] {
				continue
			}
			if s := sameMeaning(in.kids[2*i], out.kids[2*j], e); s != "" {
				continue
			}
			if s := sameMeaning(in.kids[2*i+1], out.kids[2*j+1], e); s != "" {
				if first == "" {
					first = s
				}
				continue
			}
			used[i], found = true, true
		}
		if !found {
			if first == "" {
				first = "no input member corresponds"
			}
			return fmt.Sprintf("output member %q is not an input member (%s)", out.kids[2*j].raw, first)
		}
	}
	return ""
}

// ---------------------------------------------------------------------------------------------
// read-only page: observes "the buffer is not mutated" directly

type roPage struct{ mem []byte }

func newROPage() *roPage {
	m, err := syscall.Mmap(-1, 0, 1<<16, syscall.PROT_READ|syscall.PROT_WRITE, syscall.MAP_ANON|syscall.MAP_PRIVATE)
	if err != nil {
		return nil
	}
	return &roPage{m}
}

// run places data at the END of the page (cap == len), write-protects it and calls f on that slice.
func (p *roPage) run(data []byte, f func(b []byte)) (recovered any) {
	if p == nil || len(data) == 0 || len(data) > len(p.mem) {
		return "skipped"
	}
	b := p.mem[len(p.mem)-len(data):]
	copy(b, data)
	if err := syscall.Mprotect(p.mem, syscall.PROT_READ); err != nil {
		return "skipped"
	}
	defer syscall.Mprotect(p.mem, syscall.PROT_READ|syscall.PROT_WRITE)
	return guard(func() { f(b) })
}

type sliceHdr struct {
	p        unsafe.Pointer
	len, cap int
}

func hdrOf(b []byte) sliceHdr { return sliceHdr{unsafe.Pointer(unsafe.SliceData(b)), len(b), cap(b)} }

// ---------------------------------------------------------------------------------------------
// one case

type c12worker struct {
	c      *Ctx
	rng    *rand.Rand
	page   *roPage
	replay bool // replay mode: run every sampled sub-check
}

func (w *c12worker) violate(kind string, entry int, items []optItem, in []byte, msg string, extra map[string]any) {
	d := map[string]any{"entry": entryNames[entry], "entry_id": entry, "options": itemsString(items), "what": msg,
		"options_readable": fmt.Sprint(items), "input": trunc(string(in), 200)}
	for k, v := range extra {
		d[k] = v
	}
	w.c.Violate(kind, entryNames[entry], in, d)
}

// call runs one entry point on a private copy of text.  It returns the error, the result bytes and
// whether the Value's slice header (pointer, len, cap) was left untouched.
func (w *c12worker) call(entry int, items []optItem, opts []jsontext.Options, text []byte, extraCap int, pre []byte) (err error, out []byte, hdrSame bool, ok bool) {
	buf := make([]byte, len(text), len(text)+extraCap)
	copy(buf, text)
	switch entry {
	case entFormat, entCompact, entIndent:
		v := jsontext.Value(buf)
		h0 := hdrOf(v)
		p := guard(func() {
			switch entry {
			case entFormat:
				err = v.Format(opts...)
			case entCompact:
				err = v.Compact(opts...)
			default:
				err = v.Indent(opts...)
			}
		})
		if p != nil {
			w.c.Panic(entryNames[entry], text, p, map[string]any{"options": itemsString(items)})
			return nil, nil, false, false
		}
		return err, []byte(v), hdrOf(v) == h0, true
	default:
		dst := make([]byte, len(pre), len(pre)+extraCap)
		copy(dst, pre)
		var res []byte
		p := guard(func() {
			if entry == entAppend {
				res, err = jsontext.AppendFormat(dst, buf, opts...)
			} else {
				res, err = jsontext.AppendFormat(dst, string(buf), opts...)
			}
		})
		if p != nil {
			w.c.Panic(entryNames[entry], text, p, map[string]any{"options": itemsString(items)})
			return nil, nil, false, false
		}
		if !bytes.Equal(buf, text) {
			w.violate("src-modified", entry, items, text, "AppendFormat modified src", nil)
		}
		if !bytes.HasPrefix(res, pre) {
			w.violate("dst-prefix-lost", entry, items, text, "AppendFormat result does not start with dst", map[string]any{"dst": hx(pre), "res": hx(res)})
			return nil, nil, false, false
		}
		return err, res[len(pre):], true, true
	}
}

func (w *c12worker) checkOne(entry int, items []optItem, text []byte) {
	c := w.c
	opts := mkOptions(items)
	e := effActual(entry, items)
	if ed := effDoc(entry, items); !ed.sameWhitespace(&e) {
		c.Hit("obs:effective-whitespace-differs-from-documented-equivalence/" + entryNames[entry])
	}

	// (i) validity under the effective options: library validator and independent validator
	pin := parseText(text, e.val[oDup], e.val[oUTF8])
	validRef := pin.root != nil
	var validImpl bool
	if p := guard(func() {
		validImpl = jsontext.Value(text).IsValid(jsontext.AllowDuplicateNames(e.val[oDup]), jsontext.AllowInvalidUTF8(e.val[oUTF8]))
	}); p != nil {
		c.Panic("Value.IsValid", text, p, nil)
		return
	}
	if validImpl != validRef {
		w.violate("validator-disagree", entry, items, text, fmt.Sprintf("IsValid=%v independent validator=%v", validImpl, validRef), nil)
		return
	}

	extraCap := 0
	if w.rng.IntN(2) == 0 {
		extraCap = w.rng.IntN(64)
	}
	var pre []byte
	if entry >= entAppend {
		pre = make([]byte, w.rng.IntN(12))
		for i := range pre {
			pre[i] = byte(w.rng.IntN(256))
		}
	}
	err, out, hdrSame, ok := w.call(entry, items, opts, text, extraCap, pre)
	if !ok {
		return
	}
	key := fmt.Sprintf("%d|%s|%x", entry, itemsString(items), text)
	c.Case(key, validRef && pin.ntok >= 2)

	if (err == nil) != validRef {
		w.violate("ok-iff-valid", entry, items, text, fmt.Sprintf("err=%v but valid=%v under the effective options", err, validRef), nil)
		return
	}
	if err != nil {
		c.Hit("result:error")
		// (v) untouched on error / src appended in full
		if !bytes.Equal(out, text) {
			w.violate("error-not-unmodified", entry, items, text, "after an error the value (or the appended text) differs from the input", map[string]any{"got": hx(out)})
		}
		if !hdrSame {
			w.violate("error-header-changed", entry, items, text, "after an error the Value slice header changed", nil)
		}
		return
	}
	c.Hit("result:ok")

	// (ii) output valid under the same options
	pout := parseText(out, e.val[oDup], e.val[oUTF8])
	var outValid bool
	guard(func() {
		outValid = jsontext.Value(out).IsValid(jsontext.AllowDuplicateNames(e.val[oDup]), jsontext.AllowInvalidUTF8(e.val[oUTF8]))
	})
	if pout.root == nil || !outValid {
		w.violate("output-invalid", entry, items, text, fmt.Sprintf("output invalid: IsValid=%v independent=%v", outValid, pout.root != nil), map[string]any{"out": hx(out)})
		return
	}

	// (iii) meaning preserved; whitespace exactly as prescribed
	if s := sameMeaning(pin.root, pout.root, &e); s != "" {
		w.violate("meaning-changed", entry, items, text, s, map[string]any{"out": hx(out)})
		return
	}
	if want := render(nil, pout.root, &e, 0); !bytes.Equal(want, out) {
		w.violate("whitespace", entry, items, text, "output whitespace is not what the options prescribe", map[string]any{"out": hx(out), "want": hx(want)})
		return
	}
	if bytes.Equal(out, text) {
		c.Hit("input:already-formatted")
		if !hdrSame {
			w.violate("rewritten", entry, items, text, "already formatted value: slice header changed", nil)
		}
	}

	// (iv) fixed point, and no write when already formatted
	err2, out2, hdrSame2, ok := w.call(entry, items, opts, out, extraCap, pre)
	if !ok {
		return
	}
	if err2 != nil || !bytes.Equal(out2, out) {
		w.violate("not-fixed-point", entry, items, text, fmt.Sprintf("second application: err=%v", err2), map[string]any{"out": hx(out), "out2": hx(out2)})
		return
	}
	if !hdrSame2 {
		w.violate("rewritten", entry, items, text, "second application changed the slice header", nil)
	}
	if entry <= entIndent && w.page != nil && len(out) > 0 && len(out) <= 1<<16 && (w.replay || w.rng.IntN(256) == 0) {
		var err3 error
		var h0, h1 sliceHdr
		p := w.page.run(out, func(b []byte) {
			v := jsontext.Value(b)
			h0 = hdrOf(v)
			switch entry {
			case entFormat:
				err3 = v.Format(opts...)
			case entCompact:
				err3 = v.Compact(opts...)
			default:
				err3 = v.Indent(opts...)
			}
			h1 = hdrOf(v)
		})
		switch {
		case p == "skipped":
		case p != nil:
			w.violate("rewritten", entry, items, text, fmt.Sprintf("formatting an already formatted value wrote to the buffer (fault on a read-only page: %v)", p), map[string]any{"out": hx(out)})
		case err3 != nil || h0 != h1:
			w.violate("rewritten", entry, items, text, fmt.Sprintf("read-only page: err=%v header changed=%v", err3, h0 != h1), nil)
		default:
			c.Hit("check:read-only-page-no-write")
		}
	}
}

// ---------------------------------------------------------------------------------------------
// generators

var c12Strings = fixEsc([]string{
	`""`, `"a"`, `"abc"`, `"a b"`, `"~""`, `"~~"`, `"~/"`, `"/"`, `"~b~f~n~r~t"`, `"~u0000"`, `"~u001f"`, `"~u001F"`,
	`"~u0041"`, `"~u00e9"`, `"~u00E9"`, "\"\xc3\xa9\"", "\"\xe6\x97\xa5\xe6\x9c\xac\"", `"~ud83d~ude00"`, `"~uD83D~uDE00"`, "\"\xf0\x9f\x98\x80\"", `"<>&"`, `"~u003c~u003e~u0026"`,
	"\"\xe2\x80\xa8\xe2\x80\xa9\"", `"~u2028~u2029"`, `"~u007f"`, "\"\x7f\"", `"~ufffd"`, "\"\xef\xbf\xbd\"", `"~u0022"`, `"~u005c"`, `"~u002f"`,
	`"~ud800"`, `"~udc00"`, `"~ud800~ud800"`, `"~udc00~ud800"`, `"~ud800a"`, `"~ud800~u0041"`, `"~ud83d~u"`,
	"\"\x80\"", "\"\xff\"", "\"\xc0\x80\"", "\"\xed\xa0\x80\"", "\"\xe2\x80\"", "\"\xf0\x9f\x98\"", "\"a\xffb\"", "\"\xf4\x90\x80\x80\"",
	"\"\xe2\x80\xa8\xff\"", "\"<\xff>\"", `"~u00"`, `"~x"`, `"~uD83D~uDE0"`, "\"\t\"", "\"\n\"", "\"\x00\"", "\"\x1f\"",
	"\"\xef\xbd\xa1\"", "\"\xf0\x90\x80\x80\"", "\"\xee\x80\x80\"", `"~uff61"`, `"~ud800~udc00"`, `"~u0061bc"`, `"~u0061"`, `"A"`, `"B"`, `"b"`, `"aa"`,
	"\"\xe2\x82\xac\"", "\"\xc3\xb6\"", "\"\xc2\x80\"", `"~r"`, `"1"`, `"10"`, `"2"`, `"name"`, `"x<y"`, `"k&"`,
})

// fixEsc turns the placeholder '~' into a backslash (keeps this source free of escape-in-escape confusion).
func fixEsc(xs []string) []string {
	for i := range xs {
		xs[i] = strings.ReplaceAll(xs[i], "~", "\\")
	}
	return xs
}

var c12Numbers = []string{
	"0", "-0", "1", "-1", "12", "10", "100", "0.0", "-0.0", "0e0", "-0e0", "0E+0", "1.0", "1.50", "1e5", "1E5", "1e+5", "1E-5", "1.5e10",
	"123456789012345", "1234567890123456", "9007199254740992", "9007199254740993", "-9007199254740993", "12345678901234567",
	"1234567890123456789", "18446744073709551616", "100000000000000000000", "1000000000000000000000", "123456789012345678901234567890",
	"999999999999999", "9999999999999999", "1000000000000000", "-999999999999999", "-100000000000000",
	"1e21", "1e20", "1e-6", "1e-7", "0.000001", "0.0000001", "123e-2", "1e308", "1.7976931348623157e308", "1.7976931348623159e308",
	"1e309", "-1e309", "1e999", "1e-400", "4.9e-324", "2.5e-324", "2.4e-324", "5e-324", "1e-323", "2.2250738585072014e-308",
	"0.1", "0.30000000000000004", "100e-2", "1.0e0", "1e00", "1e-0", "1e+00", "3.14159", "-2.5E+3", "1.0000000000000002",
	"0.000001e6", "25e-1", "1e1", "12e0", "1e22", "1e23", "123456789012345678e3", "0.00", "10.0",
	// invalid spellings
	"01", "-", "+1", "1.", ".5", "1e", "1e+", "-a", "1.e1", "0x1", "00", "-01", "1e1.5", "--1", "1ee1", "NaN", "Infinity",
}

var c12WS = []string{"", "", "", " ", "\n", "\t", "\r", "  ", " \n\t", "\r\n"}

type c12gen struct {
	rng *rand.Rand
}

func (g *c12gen) pick(xs []string) string { return xs[g.rng.IntN(len(xs))] }

func (g *c12gen) ws(sb *bytes.Buffer) { sb.WriteString(g.pick(c12WS)) }

func (g *c12gen) randString(sb *bytes.Buffer) {
	if g.rng.IntN(3) > 0 {
		sb.WriteString(g.pick(c12Strings))
		return
	}
	sb.WriteByte('"')
	for n := g.rng.IntN(6); n > 0; n-- {
		s := g.pick(c12Strings)
		sb.WriteString(s[1 : len(s)-1])
	}
	sb.WriteByte('"')
}

func (g *c12gen) randNumber(sb *bytes.Buffer) {
	if g.rng.IntN(3) > 0 {
		sb.WriteString(g.pick(c12Numbers))
		return
	}
	if g.rng.IntN(2) == 0 {
		sb.WriteByte('-')
	}
	nd := 1 + g.rng.IntN(24)
	if g.rng.IntN(3) == 0 {
		nd = 14 + g.rng.IntN(5)
	}
	sb.WriteByte(byte('1' + g.rng.IntN(9)))
	for i := 1; i < nd; i++ {
		sb.WriteByte(byte('0' + g.rng.IntN(10)))
	}
	if g.rng.IntN(3) == 0 {
		sb.WriteByte('.')
		for n := 1 + g.rng.IntN(20); n > 0; n-- {
			sb.WriteByte(byte('0' + g.rng.IntN(10)))
		}
	}
	if g.rng.IntN(3) == 0 {
		sb.WriteString(g.pick([]string{"e", "E", "e+", "e-", "E-"}))
		sb.WriteString(strconv.Itoa(g.rng.IntN(g.pick2(5, 40, 330))))
	}
}

func (g *c12gen) pick2(a ...int) int { return a[g.rng.IntN(len(a))] }

func (g *c12gen) value(sb *bytes.Buffer, depth int) {
	k := g.rng.IntN(10)
	if depth <= 0 && k >= 6 {
		k = g.rng.IntN(6)
	}
	switch k {
	case 0:
		sb.WriteString(g.pick([]string{"null", "true", "false"}))
	case 1, 2:
		g.randString(sb)
	case 3, 4, 5:
		g.randNumber(sb)
	case 6, 7:
		sb.WriteByte('[')
		g.ws(sb)
		n := g.rng.IntN(5)
		for i := 0; i < n; i++ {
			if i > 0 {
				sb.WriteByte(',')
			}
			g.ws(sb)
			g.value(sb, depth-1)
			g.ws(sb)
		}
		sb.WriteByte(']')
	default:
		sb.WriteByte('{')
		g.ws(sb)
		n := g.rng.IntN(5)
		var names []string
		for i := 0; i < n; i++ {
			if i > 0 {
				sb.WriteByte(',')
			}
			g.ws(sb)
			var nb bytes.Buffer
			if len(names) > 0 && g.rng.IntN(8) == 0 {
				nb.WriteString(names[g.rng.IntN(len(names))]) // exact duplicate
			} else if len(names) > 0 && g.rng.IntN(10) == 0 {
				// duplicate by respelling: escape the first character of an earlier plain name
				prev := names[g.rng.IntN(len(names))]
				if len(prev) > 2 && prev[1] < 0x80 && prev[1] != '\\' {
					fmt.Fprintf(&nb, `"\u%04x%s`, prev[1], prev[2:])
				} else {
					nb.WriteString(prev)
				}
			} else {
				g.randString(&nb)
			}
			names = append(names, nb.String())
			sb.Write(nb.Bytes())
			g.ws(sb)
			sb.WriteByte(':')
			g.ws(sb)
			g.value(sb, depth-1)
			g.ws(sb)
		}
		sb.WriteByte('}')
	}
}

var c12Alphabet = []byte("{}[],:\"\\/ub01-+.eEntfalsr \n\x00\x1f\x7f\x80\xc2\xe0\xed\xef\xf0\xff<& ")

func (g *c12gen) mutate(b []byte) []byte {
	b = bytes.Clone(b)
	for n := 1 + g.rng.IntN(2); n > 0; n-- {
		if len(b) == 0 {
			return append(b, c12Alphabet[g.rng.IntN(len(c12Alphabet))])
		}
		i := g.rng.IntN(len(b))
		switch g.rng.IntN(5) {
		case 0:
			b = append(b[:i], b[i+1:]...)
		case 1:
			b[i] = c12Alphabet[g.rng.IntN(len(c12Alphabet))]
		case 2:
			b = append(b[:i], append([]byte{c12Alphabet[g.rng.IntN(len(c12Alphabet))]}, b[i:]...)...)
		case 3:
			b = b[:i]
		default:
			j := i + g.rng.IntN(len(b)-i)
			b = append(b[:j], append(bytes.Clone(b[i:j]), b[j:]...)...)
		}
	}
	return b
}

// text produces one input; most are valid under the permissive options.
func (g *c12gen) text() (b []byte, class string) {
	var sb bytes.Buffer
	g.ws(&sb)
	g.value(&sb, 1+g.rng.IntN(4))
	g.ws(&sb)
	b = sb.Bytes()
	switch g.rng.IntN(10) {
	case 0, 1:
		return g.mutate(b), "mutated"
	case 2:
		// already formatted under some options
		v := jsontext.Value(bytes.Clone(b))
		items := g.items()
		if guard(func() { v.Format(mkOptions(items)...) }) == nil {
			return []byte(v), "preformatted"
		}
	}
	return b, "grammar"
}

var c12Indents = []string{"", " ", "\t", "  \t"}

// items samples a caller option list: every option absent / true / false (or one of the indent strings), random order.
func (g *c12gen) items() []optItem {
	var items []optItem
	dense := g.rng.IntN(4) == 0
	for k := 0; k < nOpts; k++ {
		p := 3
		if dense {
			p = 2
		}
		if g.rng.IntN(p) != 0 {
			continue
		}
		if k < oIndent {
			// options are mostly switched on; an explicit false matters after Compact/Indent defaults
			items = append(items, optItem{k: k, b: g.rng.IntN(4) != 0})
		} else {
			items = append(items, optItem{k: k, s: c12Indents[g.rng.IntN(len(c12Indents))]})
		}
	}
	g.rng.Shuffle(len(items), func(i, j int) { items[i], items[j] = items[j], items[i] })
	if g.rng.IntN(8) == 0 && len(items) > 0 {
		// a repeated option: the later one wins
		it := items[g.rng.IntN(len(items))]
		if it.k < oIndent {
			it.b = !it.b
		} else {
			it.s = c12Indents[g.rng.IntN(len(c12Indents))]
		}
		items = append(items, it)
	}
	return items
}

func classifyText(c *Ctx, b []byte, class string) {
	c.Hit("gen:" + class)
	switch n := len(b); {
	case n == 0:
		c.Hit("len:0")
	case n < 8:
		c.Hit("len:1-7")
	case n < 64:
		c.Hit("len:8-63")
	case n < 512:
		c.Hit("len:64-511")
	default:
		c.Hit("len:512+")
	}
	strict := parseText(b, false, false).root != nil
	dupOnly := parseText(b, true, false).root != nil
	utfOnly := parseText(b, false, true).root != nil
	perm := parseText(b, true, true)
	switch {
	case strict:
		c.Hit("validity:strict-valid")
	case dupOnly:
		c.Hit("validity:needs-AllowDuplicateNames")
	case utfOnly:
		c.Hit("validity:needs-AllowInvalidUTF8")
	case perm.root != nil:
		c.Hit("validity:needs-both")
	default:
		c.Hit("validity:invalid")
	}
	if perm.root != nil {
		switch {
		case perm.maxDepth == 0:
			c.Hit("depth:0")
		case perm.maxDepth <= 2:
			c.Hit("depth:1-2")
		case perm.maxDepth <= 10:
			c.Hit("depth:3-10")
		default:
			c.Hit("depth:11+")
		}
	}
}

// ---------------------------------------------------------------------------------------------
// correspondence with the Lean model (oracle family `fmt`)

type corrReq struct {
	line   string
	text   []byte
	op     string
	items  []optItem
	entry  int
	implOK bool
	impl   []byte
}

func b2i(b bool) int {
	if b {
		return 1
	}
	return 0
}

// corrBatch runs Value.Compact and Value.Indent (raw-preserving defaults, whitespace options varied) on each
// text and compares with the model: `fmt render <multi><spColon><spComma> <prefix> <indent> <text>`.
func (w *c12worker) corrBatch(or *Oracle, texts [][]byte, g *c12gen) {
	if or == nil {
		return
	}
	var reqs []corrReq
	for _, t := range texts {
		// plain Compact
		reqs = append(reqs, corrReq{line: "fmt compact " + hx(t), text: t, op: "compact", entry: entCompact})
		if len(t) > 5000 {
			continue // depth-boundary family: Compact only (any Multiline layout costs depth^2 in the real code)
		}
		// Indent / Compact with whitespace options only
		var items []optItem
		for _, k := range []int{oMultiline, oSpColon, oSpComma} {
			if g.rng.IntN(2) == 0 {
				items = append(items, optItem{k: k, b: g.rng.IntN(3) != 0})
			}
		}
		for _, k := range []int{oIndent, oPrefix} {
			if g.rng.IntN(2) == 0 {
				items = append(items, optItem{k: k, s: c12Indents[g.rng.IntN(len(c12Indents))]})
			}
		}
		g.rng.Shuffle(len(items), func(i, j int) { items[i], items[j] = items[j], items[i] })
		entry := entIndent
		if g.rng.IntN(3) == 0 {
			entry = entCompact
		}
		e := effActual(entry, items)
		reqs = append(reqs, corrReq{line: fmt.Sprintf("fmt render %d%d%d %s %s %s", b2i(e.val[oMultiline]), b2i(e.val[oSpColon]), b2i(e.val[oSpComma]),
			hx([]byte(e.prefix)), hx([]byte(e.indent)), hx(t)), text: t, op: "render", items: items, entry: entry})
	}
	// Value.Format under the validation and string options (strict model `formatV`): once with the DEFAULT
	// options, once with a random choice of AllowInvalidUTF8 / AllowDuplicateNames / PreserveRawStrings /
	// EscapeForHTML / EscapeForJS and whitespace options; Value.IsValid against `isValidV`.
	for ti, t := range texts {
		if len(t) > 5000 {
			continue
		}
		for rep := 0; rep < 2; rep++ {
			if !w.c.Thorough() && !w.replay && rep != ti%2 {
				continue // quick tier: default options for every other text, random options for the rest
			}
			var items []optItem
			if rep == 1 {
				for _, k := range []int{oUTF8, oDup, oPreserve, oHTML, oJS, oMultiline, oSpColon, oSpComma} {
					if g.rng.IntN(2) == 0 {
						items = append(items, optItem{k: k, b: g.rng.IntN(4) != 0})
					}
				}
				for _, k := range []int{oIndent, oPrefix} {
					if g.rng.IntN(3) == 0 {
						items = append(items, optItem{k: k, s: c12Indents[g.rng.IntN(len(c12Indents))]})
					}
				}
				g.rng.Shuffle(len(items), func(i, j int) { items[i], items[j] = items[j], items[i] })
			}
			e := effActual(entFormat, items)
			reqs = append(reqs, corrReq{line: fmt.Sprintf("fmt formatv %d%d%d%d%d %d%d%d %s %s %s", b2i(e.val[oUTF8]), b2i(e.val[oDup]),
				b2i(e.val[oPreserve]), b2i(e.val[oHTML]), b2i(e.val[oJS]), b2i(e.val[oMultiline]), b2i(e.val[oSpColon]), b2i(e.val[oSpComma]),
				hx([]byte(e.prefix)), hx([]byte(e.indent)), hx(t)), text: t, op: "formatv", items: items, entry: entFormat})
		}
	}
	lines := make([]string, len(reqs))
	for i := range reqs {
		r := &reqs[i]
		lines[i] = r.line
		v := jsontext.Value(bytes.Clone(r.text))
		var err error
		opts := mkOptions(r.items)
		if p := guard(func() {
			if r.entry == entFormat {
				err = v.Format(opts...)
			} else if r.entry == entCompact {
				err = v.Compact(opts...)
			} else {
				err = v.Indent(opts...)
			}
		}); p != nil {
			w.c.Panic(entryNames[r.entry], r.text, p, nil)
			continue
		}
		r.implOK, r.impl = err == nil, []byte(v)
	}
	ans := or.Ask(lines)
	for i, r := range reqs {
		want := "E"
		if r.implOK {
			want = "ok " + hx(r.impl)
		}
		w.c.Hit("corr:" + r.op)
		if ans[i] != want {
			w.c.Violate("corr-fmt-"+r.op, entryNames[r.entry], r.text, map[string]any{"line": r.line, "model": trunc(ans[i], 400), "impl": trunc(want, 400),
				"options": itemsString(r.items)})
		}
	}
	// tokens: the model's token list against this file's independent tokenizer
	lines = lines[:0]
	var toks []string
	for _, t := range texts {
		p := parseText(t, true, true)
		if len(t) > 5000 {
			continue
		}
		lines = append(lines, "fmt tokens "+hx(t))
		if p.root == nil {
			toks = append(toks, "E")
		} else {
			var sb strings.Builder
			sb.WriteString("ok")
			flatTokens(&sb, p.root)
			toks = append(toks, sb.String())
		}
	}
	// Value.IsValid under the four combinations of the validation options vs the model
	var vlines, vwant []string
	for ti, t := range texts {
		if len(t) > 5000 || (!w.c.Thorough() && !w.replay && ti%2 == 1) {
			continue
		}
		u, d := g.rng.IntN(2) == 0, g.rng.IntN(2) == 0
		var ok bool
		if p := guard(func() { ok = jsontext.Value(t).IsValid(jsontext.AllowInvalidUTF8(u), jsontext.AllowDuplicateNames(d)) }); p != nil {
			w.c.Panic("Value.IsValid", t, p, nil)
			continue
		}
		vlines = append(vlines, fmt.Sprintf("fmt validv %d%d %s", b2i(u), b2i(d), hx(t)))
		vwant = append(vwant, strconv.Itoa(b2i(ok)))
	}
	vans := or.Ask(vlines)
	for i := range vlines {
		w.c.Hit("corr:validv")
		if vans[i] != vwant[i] {
			w.c.Violate("corr-fmt-validv", "Value.IsValid", unhx(vlines[i][strings.LastIndexByte(vlines[i], ' ')+1:]), map[string]any{"line": trunc(vlines[i], 300), "model": vans[i], "impl": vwant[i]})
		}
	}
	ans = or.Ask(lines)
	for i := range lines {
		w.c.Hit("corr:tokens")
		if ans[i] != toks[i] {
			w.c.Violate("corr-fmt-tokens", "tokens", unhx(strings.TrimPrefix(lines[i], "fmt tokens ")), map[string]any{"model": trunc(ans[i], 400), "harness": trunc(toks[i], 400)})
		}
	}
}

func flatTokens(sb *strings.Builder, n *node) {
	switch n.kind {
	case '[', '{':
		sb.WriteByte(' ')
		sb.WriteByte(n.kind)
		for _, k := range n.kids {
			flatTokens(sb, k)
		}
		sb.WriteByte(' ')
		sb.WriteByte(n.kind + 2)
	case '"':
		sb.WriteString(" s" + hx(n.raw))
	case '0':
		sb.WriteString(" d" + hx(n.raw))
	default:
		sb.WriteString(" " + string(n.kind))
	}
}

// ---------------------------------------------------------------------------------------------
// driver

// depth-boundary family: wrappers x nesting pattern x innermost leaf.
// `wrap` containers are opened around the leaf; a container leaf adds one more level, so the product
// straddles the nesting limit from both sides for every kind of innermost value.
var (
	c12DeepWraps    = []int{c12MaxDepth - 1, c12MaxDepth, c12MaxDepth + 1, c12MaxDepth + 2}
	c12DeepPatterns = []string{"arrays", "objects", "alternating", "mixed"}
	c12DeepLeaves   = []string{"1", `"s"`, "[]", "[ ]", "{}", "{ }", "[1]", `{"a":1}`}
)

type deepCase struct {
	text                []byte
	wrap                int
	pattern, leaf, name string
}

func deepText(wrap int, pattern string, leaf string, rng *rand.Rand) []byte {
	kinds := make([]bool, wrap) // true: object level
	for i := range kinds {
		switch pattern {
		case "objects":
			kinds[i] = true
		case "alternating":
			kinds[i] = i%2 == 1
		case "mixed":
			kinds[i] = rng.IntN(2) == 0
		}
	}
	var sb bytes.Buffer
	for _, obj := range kinds {
		if obj {
			sb.WriteString(`{"a":`)
		} else {
			sb.WriteByte('[')
		}
	}
	sb.WriteString(leaf)
	for i := wrap - 1; i >= 0; i-- {
		if kinds[i] {
			sb.WriteByte('}')
		} else {
			sb.WriteByte(']')
		}
	}
	return sb.Bytes()
}

func deepFamily(rng *rand.Rand) []deepCase {
	var out []deepCase
	for _, w := range c12DeepWraps {
		for _, p := range c12DeepPatterns {
			for _, l := range c12DeepLeaves {
				out = append(out, deepCase{deepText(w, p, l, rng), w, p, l, fmt.Sprintf("wrap=%d/%s/leaf=%s", w, p, l)})
			}
		}
	}
	return out
}

// option lists for the depth-boundary family.  Multiline is excluded here (AppendIndent loops depth times per
// token even for an empty indent: depth^2) and exercised by exactly one case, see runDeep.
var c12DeepOptionLists = [][]optItem{
	nil,
	{{k: oDup, b: true}, {k: oUTF8, b: true}, {k: oPreserve, b: true}},
	{{k: oReorder, b: true}},
	{{k: oInts, b: true}, {k: oFloats, b: true}},
	{{k: oSpColon, b: true}, {k: oSpComma, b: true}, {k: oHTML, b: true}},
	{{k: oDup, b: true}, {k: oReorder, b: true}, {k: oInts, b: true}},
}

// runDeep evaluates every predicate on one text of the depth-boundary family, through all entry points.
func (w *c12worker) runDeep(dc deepCase, multilineCase bool) {
	w.c.Hit("gen:depth-boundary")
	w.c.Hit(fmt.Sprintf("deep:wrap=%d", dc.wrap))
	w.c.Hit("deep:pattern=" + dc.pattern)
	w.c.Hit("deep:leaf=" + dc.leaf)
	if parseText(dc.text, true, true).root != nil {
		w.c.Hit("deep:valid")
	} else {
		w.c.Hit("deep:invalid")
	}
	for _, items := range c12DeepOptionLists {
		for entry := 0; entry < nEntries; entry++ {
			if e := effActual(entry, items); e.val[oMultiline] {
				continue // Value.Indent: see multilineCase
			}
			w.checkOne(entry, items, dc.text)
		}
	}
	if multilineCase {
		w.c.Hit("deep:multiline-case")
		w.checkOne(entIndent, []optItem{{k: oIndent, s: ""}}, dc.text)
	}
}

func runC12(c *Ctx) {
	if c.ReplayPath != "" {
		replayC12(c)
		return
	}
	nWorkers := c.N(4, 16)
	nTexts := c.N(20000, 1000000)
	perText := c.N(16, 10) // option lists per text; each with all 5 entry points => 80 / 50 calls per text
	enumLen := c.N(3, 4)

	// fixed boundary texts (evaluated by worker 0 with many option lists)
	var fixed [][]byte
	for _, s := range c12Strings {
		fixed = append(fixed, []byte(s), []byte(`{`+s+`:`+s+`}`), []byte(`[`+s+`,`+s+`]`))
	}
	for _, s := range c12Numbers {
		fixed = append(fixed, []byte(s), []byte(`[`+s+`]`), []byte(` {"n" : `+s+` } `))
	}
	for _, s := range []string{"", " ", "null", "nul", "nulll", "true", "false", "tru", "[]", "{}", "[ ]", "{ }", "[[]]", "[{}]", "{\"a\":{}}", "[,]", "[1,]", "{,}",
		"{\"a\"}", "{\"a\":}", "{\"a\":1,}", "{1:2}", "[1 2]", "1 2", "[1]]", "[", "]", "{", "}", "[}", "{]", "\"", "nulltrue", "null,", ":", ",",
		`{"b":1,"a":2}`, `{"a":1,"a":2}`, `{"a":2,"a":1}`, `{"a":1,"a":0}`, `{"a":[3,2,1],"a":[1,2,3]}`, `{"b":{"z":1,"y":2},"a":{"d":[{"q":1,"p":2}]}}`,
		"{\"｡\":1,\"\U00010000\":2}", "{\"\U00010000\":2,\"｡\":1}", `{"𐀀":2,"｡":1}`, "{\"\xff\":1,\"�\":2}", "{\"\xff\":1,\"\xfe\":2}",
		`{"":1," ":2,"":3}`, "[1,\n2,\r\n3\t]", "\xef\xbb\xbf1", "[\"a\",{\"b\":[null,true,false,{\"c\":{}}]}]",
		"[\n\t1,\n\t2\n]", "{\n\t\"a\": 1\n}", "[1, 2]", `{"a": 1, "b": 2}`, "[\n1,\n2\n]", "{\n\"a\":1\n}"} {
		fixed = append(fixed, []byte(s))
	}
	deep := deepFamily(c.SubRng(1 << 20))
	c.Note("depth-boundary family: %d texts = wraps %v x patterns %v x leaves %q, %d option lists x %d entry points each (+1 Multiline case)",
		len(deep), c12DeepWraps, c12DeepPatterns, c12DeepLeaves, len(c12DeepOptionLists), nEntries)

	// bounded-exhaustive byte strings over a JSON-critical alphabet
	enumAlpha := []byte("{}[],:\"\\u0 1-.en\x80a")
	var enum [][]byte
	var rec func(prefix []byte, n int)
	rec = func(prefix []byte, n int) {
		enum = append(enum, bytes.Clone(prefix))
		if n == 0 {
			return
		}
		for _, ch := range enumAlpha {
			rec(append(prefix, ch), n-1)
		}
	}
	rec(nil, enumLen)
	c.Note("bounded-exhaustive: all %d byte strings of length <= %d over %q", len(enum), enumLen, enumAlpha)

	var wg sync.WaitGroup
	for wi := 0; wi < nWorkers; wi++ {
		wg.Add(1)
		go func(wi int) {
			defer wg.Done()
			defer func() {
				if r := recover(); r != nil {
					if mf, ok := r.(machineryFailure); ok {
						fmt.Fprintf(os.Stderr, "machinery failure: %s\n", string(mf))
						os.Exit(2)
					}
					panic(r)
				}
			}()
			debug.SetPanicOnFault(true)
			rng := c.SubRng(uint64(wi))
			w := &c12worker{c: c, rng: rng, page: newROPage()}
			g := &c12gen{rng: rng}
			or := c.NewOracle()
			if w.page == nil && wi == 0 {
				c.Note("mmap unavailable: the read-only page check is skipped")
			}
			runText := func(t []byte, nLists int) {
				for j := 0; j < nLists; j++ {
					items := g.items()
					if j == 0 {
						items = nil
					}
					for entry := 0; entry < nEntries; entry++ {
						if len(t) > 5000 && effActual(entry, items).val[oMultiline] {
							continue // quadratic indentation cost; long texts belong to the depth-boundary family
						}
						w.checkOne(entry, items, t)
					}
				}
			}
			var batch [][]byte
			flush := func() {
				w.corrBatch(or, batch, g)
				batch = batch[:0]
			}
			// fixed and enumerated inputs, striped over the workers
			for i, t := range fixed {
				if i%nWorkers != wi {
					continue
				}
				classifyText(c, t, "fixed")
				runText(t, 64)
				batch = append(batch, t)
			}
			flush()
			// depth-boundary family, striped over the workers; the single Multiline case is the deepest valid
			// all-arrays text whose innermost value is an empty object
			for i, dc := range deep {
				if i%nWorkers != wi {
					continue
				}
				w.runDeep(dc, dc.wrap == c12MaxDepth-1 && dc.pattern == "arrays" && dc.leaf == "{}")
				// correspondence (`fmt compact`): the model's depth check walks the stack, ~1 s per text, so the
				// quick tier sends the "mixed" pattern (all wraps x all leaves) and the thorough tier everything
				if c.Thorough() || dc.pattern == "mixed" {
					batch = append(batch, dc.text)
				}
				if len(batch) >= 8 {
					flush()
				}
			}
			flush()
			for i, t := range enum {
				if i%nWorkers != wi {
					continue
				}
				c.Hit("gen:enumerated")
				runText(t, 3)
				batch = append(batch, t)
				if len(batch) >= 2000 {
					flush()
				}
			}
			flush()
			// generated inputs
			for i := wi; i < nTexts; i += nWorkers {
				t, class := g.text()
				classifyText(c, t, class)
				runText(t, perText)
				if len(batch) < 1<<30 && (!c.Thorough() || i%(4*nWorkers) == wi) {
					batch = append(batch, t)
				}
				if len(batch) >= 1000 {
					flush()
				}
				if i < 6*nWorkers && i%nWorkers == wi && wi < 6 {
					v := jsontext.Value(bytes.Clone(t))
					err := v.Indent()
					c.Sample(map[string]any{"input": trunc(string(t), 120), "Indent()": trunc(string(v), 160), "err": fmt.Sprint(err)})
				}
			}
			flush()
		}(wi)
	}
	wg.Wait()
}

// replayC12 re-runs the case stored in a replay file.
func replayC12(c *Ctx) {
	b, err := os.ReadFile(c.ReplayPath)
	if err != nil {
		fail("replay: %v", err)
	}
	var r struct {
		Violation Violation `json:"violation"`
	}
	if err := json.Unmarshal(b, &r); err != nil {
		fail("replay: %v", err)
	}
	in := unhx(r.Violation.Input)
	if r.Violation.Input == "" {
		in = nil
	}
	debug.SetPanicOnFault(true)
	w := &c12worker{c: c, rng: c.SubRng(0), page: newROPage(), replay: true}
	if strings.HasPrefix(r.Violation.Kind, "corr-") {
		w.corrBatch(c.NewOracle(), [][]byte{in}, &c12gen{rng: w.rng})
		return
	}
	items := parseItems(fmt.Sprint(r.Violation.Detail["options"]))
	entry := 0
	if f, ok := r.Violation.Detail["entry_id"].(float64); ok {
		entry = int(f)
	}
	w.checkOne(entry, items, in)
}
