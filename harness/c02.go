package main

// C02 — Marshal never emits malformed JSON, whatever the value or user code does.
//
// Predicate evaluated on the implementation, for every generated program
// (Go type x value x behaviour of the user marshalers it contains x option set x entry point):
//
//	err == nil  ⇒  the bytes produced are EXACTLY ONE JSON value, valid under the effective options
//	               (strict UTF-8 unless AllowInvalidUTF8, no duplicate names at any depth unless AllowDuplicateNames)
//	the library does not panic;  Marshal, MarshalWrite and MarshalEncode agree with each other.
//
// Validity is judged by (1) c02Validate below, written from RFC 8259/7493 and independent of the library,
// (2) jsontext.Value.IsValid, (3) the Lean oracle op `wire valid` when the oracle implements it.

import (
	"bytes"
	"encoding/json"
	"fmt"
	"math"
	"math/rand/v2"
	"os"
	"reflect"
	"runtime"
	"runtime/debug"
	"runtime/pprof"
	"sort"
	"strconv"
	"strings"
	"sync"
	"time"

	jsonv2 "github.com/go-json-experiment/json"
	"github.com/go-json-experiment/json/jsontext"
	jsonv1 "github.com/go-json-experiment/json/v1"
)

func init() { register("C02", runC02) }

// ================================================================================================
// 1. Independent validator (RFC 8259 grammar; RFC 7493 restrictions selectable)
// ================================================================================================

type c02V struct {
	OK       bool
	Reason   string
	Off      int
	NVals    int  // number of top-level values in the text
	Kind     byte // kind of the first top-level value: n t f " 0 { [
	Children int  // elements / members of the first top-level value
	BadUTF8  bool // the text contains ill-formed UTF-8 or an unpaired surrogate escape (only when allowed)
}

type c02P struct {
	b        []byte
	i        int
	allowBad bool
	allowDup bool
	sawBad   bool
	reason   string
}

func (p *c02P) fail(r string) bool {
	if p.reason == "" {
		p.reason = r
	}
	return false
}

func (p *c02P) ws() {
	for p.i < len(p.b) {
		switch p.b[p.i] {
		case ' ', '\t', '\n', '\r':
			p.i++
		default:
			return
		}
	}
}

// c02UTF8 decodes one well-formed UTF-8 sequence per Unicode table 3-7 (n = 0: ill-formed).
func c02UTF8(b []byte) (r rune, n int) {
	c := b[0]
	in := func(x byte, lo, hi byte) bool { return lo <= x && x <= hi }
	switch {
	case c < 0x80:
		return rune(c), 1
	case in(c, 0xC2, 0xDF):
		if len(b) >= 2 && in(b[1], 0x80, 0xBF) {
			return rune(c&0x1F)<<6 | rune(b[1]&0x3F), 2
		}
	case in(c, 0xE0, 0xEF):
		lo, hi := byte(0x80), byte(0xBF)
		if c == 0xE0 {
			lo = 0xA0
		}
		if c == 0xED {
			hi = 0x9F
		}
		if len(b) >= 3 && in(b[1], lo, hi) && in(b[2], 0x80, 0xBF) {
			return rune(c&0x0F)<<12 | rune(b[1]&0x3F)<<6 | rune(b[2]&0x3F), 3
		}
	case in(c, 0xF0, 0xF4):
		lo, hi := byte(0x80), byte(0xBF)
		if c == 0xF0 {
			lo = 0x90
		}
		if c == 0xF4 {
			hi = 0x8F
		}
		if len(b) >= 4 && in(b[1], lo, hi) && in(b[2], 0x80, 0xBF) && in(b[3], 0x80, 0xBF) {
			return rune(c&0x07)<<18 | rune(b[1]&0x3F)<<12 | rune(b[2]&0x3F)<<6 | rune(b[3]&0x3F), 4
		}
	}
	return 0xFFFD, 0
}

func c02Hex4(b []byte) (int, bool) {
	if len(b) < 4 {
		return 0, false
	}
	v := 0
	for _, c := range b[:4] {
		switch {
		case '0' <= c && c <= '9':
			v = v<<4 | int(c-'0')
		case 'a' <= c && c <= 'f':
			v = v<<4 | int(c-'a'+10)
		case 'A' <= c && c <= 'F':
			v = v<<4 | int(c-'A'+10)
		default:
			return 0, false
		}
	}
	return v, true
}

// str parses a string literal and returns its meaning as a sequence of code points
// (ill-formed input, when allowed, means U+FFFD — one per offending byte / unpaired surrogate).
func (p *c02P) str() (string, bool) {
	if p.i >= len(p.b) || p.b[p.i] != '"' {
		return "", p.fail("expected string")
	}
	p.i++
	var out []rune
	for {
		if p.i >= len(p.b) {
			return "", p.fail("unterminated string")
		}
		c := p.b[p.i]
		switch {
		case c == '"':
			p.i++
			return string(out), true
		case c < 0x20:
			return "", p.fail("control character in string")
		case c == '\\':
			if p.i+1 >= len(p.b) {
				return "", p.fail("truncated escape")
			}
			e := p.b[p.i+1]
			switch e {
			case '"', '\\', '/':
				out = append(out, rune(e))
				p.i += 2
			case 'b':
				out = append(out, '\b')
				p.i += 2
			case 'f':
				out = append(out, '\f')
				p.i += 2
			case 'n':
				out = append(out, '\n')
				p.i += 2
			case 'r':
				out = append(out, '\r')
				p.i += 2
			case 't':
				out = append(out, '\t')
				p.i += 2
			case 'u':
				u, ok := c02Hex4(p.b[p.i+2:])
				if !ok {
					return "", p.fail("bad \\u escape")
				}
				p.i += 6
				switch {
				case 0xD800 <= u && u <= 0xDBFF:
					if p.i+1 < len(p.b) && p.b[p.i] == '\\' && p.b[p.i+1] == 'u' {
						if u2, ok := c02Hex4(p.b[p.i+2:]); ok && 0xDC00 <= u2 && u2 <= 0xDFFF {
							out = append(out, rune(0x10000+(u-0xD800)<<10+(u2-0xDC00)))
							p.i += 6
							continue
						}
					}
					fallthrough
				case 0xDC00 <= u && u <= 0xDFFF:
					if !p.allowBad {
						return "", p.fail("unpaired surrogate escape")
					}
					p.sawBad = true
					out = append(out, 0xFFFD)
				default:
					out = append(out, rune(u))
				}
			default:
				return "", p.fail("bad escape")
			}
		case c < 0x80:
			out = append(out, rune(c))
			p.i++
		default:
			r, n := c02UTF8(p.b[p.i:])
			if n == 0 {
				if !p.allowBad {
					return "", p.fail("ill-formed UTF-8")
				}
				p.sawBad = true
				n = 1
			}
			out = append(out, r)
			p.i += n
		}
	}
}

func (p *c02P) digits() int {
	n := 0
	for p.i < len(p.b) && '0' <= p.b[p.i] && p.b[p.i] <= '9' {
		p.i++
		n++
	}
	return n
}

func (p *c02P) num() bool {
	if p.i < len(p.b) && p.b[p.i] == '-' {
		p.i++
	}
	if p.i >= len(p.b) {
		return p.fail("truncated number")
	}
	if p.b[p.i] == '0' {
		p.i++
	} else if p.digits() == 0 {
		return p.fail("number without integer digits")
	}
	if p.i < len(p.b) && p.b[p.i] == '.' {
		p.i++
		if p.digits() == 0 {
			return p.fail("number without fraction digits")
		}
	}
	if p.i < len(p.b) && (p.b[p.i] == 'e' || p.b[p.i] == 'E') {
		p.i++
		if p.i < len(p.b) && (p.b[p.i] == '+' || p.b[p.i] == '-') {
			p.i++
		}
		if p.digits() == 0 {
			return p.fail("number without exponent digits")
		}
	}
	return true
}

func (p *c02P) lit(s string) bool {
	if bytes.HasPrefix(p.b[p.i:], []byte(s)) {
		p.i += len(s)
		return true
	}
	return p.fail("bad literal")
}

// value parses one value; children = number of elements/members when it is a container.
func (p *c02P) value() (kind byte, children int, ok bool) {
	if p.i >= len(p.b) {
		return 0, 0, p.fail("expected value")
	}
	switch c := p.b[p.i]; {
	case c == 'n':
		return 'n', 0, p.lit("null")
	case c == 't':
		return 't', 0, p.lit("true")
	case c == 'f':
		return 'f', 0, p.lit("false")
	case c == '"':
		_, ok := p.str()
		return '"', 0, ok
	case c == '-' || ('0' <= c && c <= '9'):
		return '0', 0, p.num()
	case c == '[':
		p.i++
		p.ws()
		if p.i < len(p.b) && p.b[p.i] == ']' {
			p.i++
			return '[', 0, true
		}
		n := 0
		for {
			p.ws()
			if _, _, ok := p.value(); !ok {
				return '[', n, false
			}
			n++
			p.ws()
			if p.i >= len(p.b) {
				return '[', n, p.fail("unterminated array")
			}
			if p.b[p.i] == ',' {
				p.i++
				continue
			}
			if p.b[p.i] == ']' {
				p.i++
				return '[', n, true
			}
			return '[', n, p.fail("expected , or ]")
		}
	case c == '{':
		p.i++
		p.ws()
		if p.i < len(p.b) && p.b[p.i] == '}' {
			p.i++
			return '{', 0, true
		}
		var seen map[string]struct{}
		if !p.allowDup {
			seen = map[string]struct{}{}
		}
		n := 0
		for {
			p.ws()
			name, ok := p.str()
			if !ok {
				return '{', n, false
			}
			if seen != nil {
				if _, dup := seen[name]; dup {
					return '{', n, p.fail("duplicate name " + strconv.Quote(name))
				}
				seen[name] = struct{}{}
			}
			p.ws()
			if p.i >= len(p.b) || p.b[p.i] != ':' {
				return '{', n, p.fail("expected :")
			}
			p.i++
			p.ws()
			if _, _, ok := p.value(); !ok {
				return '{', n, false
			}
			n++
			p.ws()
			if p.i >= len(p.b) {
				return '{', n, p.fail("unterminated object")
			}
			if p.b[p.i] == ',' {
				p.i++
				continue
			}
			if p.b[p.i] == '}' {
				p.i++
				return '{', n, true
			}
			return '{', n, p.fail("expected , or }")
		}
	}
	return 0, 0, p.fail("unexpected character")
}

// c02Validate parses a whole text: ws (value ws)*.
func c02Validate(b []byte, allowBadUTF8, allowDup bool) c02V {
	p := &c02P{b: b, allowBad: allowBadUTF8, allowDup: allowDup}
	var v c02V
	for {
		p.ws()
		if p.i >= len(b) {
			break
		}
		k, ch, ok := p.value()
		if !ok {
			return c02V{OK: false, Reason: p.reason, Off: p.i, NVals: v.NVals}
		}
		if v.NVals == 0 {
			v.Kind, v.Children = k, ch
		}
		v.NVals++
		if p.i < len(b) && b[p.i] != ' ' && b[p.i] != '\t' && b[p.i] != '\n' && b[p.i] != '\r' {
			return c02V{OK: false, Reason: "unexpected character after top-level value", Off: p.i, NVals: v.NVals}
		}
	}
	v.OK = true
	v.BadUTF8 = p.sawBad
	return v
}

// ================================================================================================
// 2. Generator of programs
// ================================================================================================

type c02Case struct {
	idx      uint64
	typ      reflect.Type
	in       any
	opts     []jsonv2.Options
	optNames []string
	behs     []*Beh
	tr       *Trace
	effDup   bool // AllowDuplicateNames as given by the case's own options
	multiMap bool // some map with >= 2 entries is reachable (iteration order is random)
	counters bool // some behaviour depends on how many calls came before it
	userCode bool
	kinds    map[string]bool
}

type c02Gen struct {
	r    *rand.Rand
	cs   *c02Case
	hits map[string]int64
	big  bool    // currently generating fields of a big struct: keep them small
	adv  float64 // adversity of this case: every adversarial choice is only taken with this probability (else its benign variant), so
	// that programs with ONE fault and an otherwise well-behaved rest are common (an error elsewhere would mask the fault)
	pos string // where the value being generated sits (top, field, elem, mapkey, mapval, pointer, interface, …)
}

func (g *c02Gen) n(k int) int      { return g.r.IntN(k) }
func (g *c02Gen) p(x float64) bool { return g.r.Float64() < x }
func (g *c02Gen) hit(s string)     { g.hits[s]++ }
func (g *c02Gen) calm() bool       { return g.adv < 1 && g.r.Float64() >= g.adv }
func (g *c02Gen) kind(s string) {
	g.hits["kind:"+s]++
	if strings.HasPrefix(s, "user:") {
		g.hits["position-of-user-code:"+g.pos]++
	}
	if g.cs != nil {
		g.cs.kinds[s] = true
	}
}

var (
	c02Strings = []string{"", "a", "b", "A", "hello world", "q\"uo\\te\n\t", "<script>&amp;</script>", "  ", "日本語", "😀",
		"\x00\x1f\x7f", "\xff", "a\xc0\xafb", "\xed\xa0\x80", "\xf4\x90\x80\x80", "\xe2\x82", "�", "-", "0", "true", "null", "e1", "u1",
		strings.Repeat("x", 70), strings.Repeat("é\"", 2100), strings.Repeat("\xff", 33)}
	c02Texts = []string{"plain", "", "a", "b", "with \"quotes\" and \\ and \n", "<&>", " ", "\xff\xfe", "caf\xc3", "\xed\xb0\x80", "\x00",
		"日本", strings.Repeat("t", 5000), "e1", "true", "1"}
	c02JSONGood = []string{`null`, `true`, `false`, `0`, `-0`, `-0.0e+1`, `12345678901234567890123`, `1E400`, `""`, `"a"`, `"b"`, `"a"`, `"😀"`,
		`"\/\b\f"`, `{}`, `[]`, `{"a":1}`, `{"a":1,"b":[true,null,{"c":{}}]}`, `[[[[[[1]]]]]]`, `{"":""}`, `[1,"2",3.0,{"x":[]}]`, `"e1"`, `"u1"`}
	c02JSONBad = []string{``, ` `, `1 2`, `{"a":`, `{"a":1`, `[1,2`, `"\xff"`, `{"\xff":1}`, `{"a":1,"a":2}`, `{"a":1,"a":2}`, `[{"x":{"k":1,"k":2}}]`,
		`nul`, `tru`, `fals`, `nullx`, `{a:1}`, `[1,]`, `{"a":1,}`, `01`, `"unterminated`, `"\ud800"`, `"\udc00\ud800"`, "\"\x01\"", `{1:2}`, "\xef\xbb\xbf1", "\x00",
		`1e999x`, `-`, `.5`, `1.`, `0x10`, `+1`, `NaN`, `Infinity`, `-Infinity`, `'a'`, `[1 2]`, `{"a" 1}`, `{"a":1 "b":2}`, `]`, `}`, `,`, `:`, `"\q"`, `"\u12"`, `[}`, `{]`,
		`{"a":{"b":{"c":1,"c":2}}}`, `["\xc0\x80"]`, "{\"a\":[\"\xff\"]}", `"\udc00"`, `{"\ud800":1}`, "[{\"k\":\"\xc3\"}]", "\"ok\xf0\x9f\"", `"\ud83d"`, "{\"\xe2\x82\":null}", `{"k":"\xed\xa0\x80"}`, `1,2`, `[1],[2]`, `{}{}`, `//c` + "\n1", `/*c*/1`}
	c02Formats = []string{"base64", "base64url", "base32", "base32hex", "base16", "hex", "array", "emitnull", "emitempty", "nonfinite", "RFC3339", "RFC3339Nano", "RFC1123",
		"unix", "unixmilli", "unixmicro", "unixnano", "sec", "milli", "micro", "nano", "units", "iso8601", "base60", "'2006-01-02'", `'x"y\\z'`, "'\xff'", "bogus", "DateOnly", "Kitchen"}
	// formats by the kind of Go value they apply to ("strings that reach the output through a non-string Go value")
	c02TimeFormats = []string{"RFC1123", "RFC822", "RFC850", "UnixDate", "RFC1123", "RFC822", "RFC850", "UnixDate", "'(MST)'", "'Mon Jan _2 15:04:05 MST 2006'", "ANSIC", "UnixDate", "RubyDate", "RFC822", "RFC822Z", "RFC850", "RFC1123", "RFC1123Z", "RFC3339", "RFC3339Nano", "Kitchen", "Stamp", "StampMilli",
		"StampMicro", "StampNano", "DateTime", "DateOnly", "TimeOnly", "Layout", "unix", "unixmilli", "unixmicro", "unixnano",
		"'Mon Jan _2 15:04:05 MST 2006'", "'MST!'", "'2006 MST -0700 Z07:00'", `'x"y\\z MST'`, "'\xff MST'", `'\x01\t MST'`, "'<&> MST 日本'", "'2006-01-02'", "bogus", "''"}
	c02DurFormats   = []string{"sec", "milli", "micro", "nano", "units", "iso8601", "base60", "bogus", "RFC3339"}
	c02BytesFormats = []string{"base64", "base64url", "base32", "base32hex", "base16", "hex", "array", "bogus", "emitnull"}
	c02ZoneNames    = []string{`X"Y`, `X\Y`, "X\x01Y", "\xff", `","z":"`, "<&>", "日本", "", "\u2028", "MST", strings.Repeat("Z", 300), "a\xc0\xafb", "\"", "\\"}
	c02TagNames     = []string{"a", "b", "A", "a", "x y", "<&>", "日本", " ", `'\"'`, `'\\'`, `'a,b'`, `'-'`, "-", `''`, "\xff", "\xfe", `'\x00'`, "e1", "u1", "k", "dflt", "ａ", "ſ", "K"}
)

var c02MutBytes = []byte("{}[],:\"\\ \xff0e-.")

func c02Big(s string) []byte { // "a huge value"
	switch s {
	case "arr":
		var b bytes.Buffer
		b.WriteByte('[')
		for i := 0; i < 3000; i++ {
			if i > 0 {
				b.WriteByte(',')
			}
			b.WriteString(strconv.Itoa(i * 7919))
		}
		b.WriteByte(']')
		return b.Bytes()
	case "str":
		return []byte(`"` + strings.Repeat(`ab\n<`, 6000) + `"`)
	case "deep":
		return []byte(strings.Repeat("[", 60) + strings.Repeat("]", 60))
	case "deep-obj":
		return []byte(strings.Repeat(`{"a":`, 40) + "1" + strings.Repeat("}", 40))
	case "toodeep":
		return []byte(strings.Repeat("[", 10001) + strings.Repeat("]", 10001))
	}
	return []byte("null")
}

func (g *c02Gen) jsonBytes() ([]byte, string) {
	x := g.n(100)
	if g.calm() {
		x = g.n(48)
	}
	switch {
	case x < 40:
		return []byte(c02JSONGood[g.n(len(c02JSONGood))]), "valid"
	case x < 48:
		s := c02JSONGood[g.n(len(c02JSONGood))]
		return []byte(" \n\t" + s + "\r\n "), "valid-ws"
	case x < 85:
		return []byte(c02JSONBad[g.n(len(c02JSONBad))]), "bad"
	case x < 91:
		k := []string{"arr", "str", "deep", "deep-obj"}[g.n(4)]
		return c02Big(k), "huge-" + k
	case x < 92:
		if g.n(12) == 0 { // rare: with Multiline the indentation of 10^4 levels costs ~1 GB of copying
			return c02Big("toodeep"), "toodeep"
		}
		return c02Big("deep"), "huge-deep"
	default: // mutate a valid value
		b := []byte(c02JSONGood[g.n(len(c02JSONGood))])
		if len(b) > 0 {
			switch g.n(3) {
			case 0:
				b[g.n(len(b))] = c02MutBytes[g.n(len(c02MutBytes))]
			case 1:
				b = b[:g.n(len(b))]
			default:
				i := g.n(len(b) + 1)
				b = append(b[:i:i], append([]byte{c02MutBytes[g.n(len(c02MutBytes))]}, b[i:]...)...)
			}
		}
		return b, "mutated"
	}
}

func (g *c02Gen) script() []Op {
	var ops []Op
	x := g.n(100)
	if g.calm() {
		x = 0
	}
	switch {
	case x < 20: // exactly one value
		ops = append(ops, Op{Kind: opOneValue, Arg: g.n(6)})
		g.hit("script:one-value")
	case x < 25: // zero values
		g.hit("script:zero-values")
	case x < 32: // two values
		ops = append(ops, Op{Kind: opOneValue, Arg: g.n(6)}, Op{Kind: opOneValue, Arg: g.n(6)})
		g.hit("script:two-values")
	case x < 39: // unclosed container
		ops = append(ops, Op{Kind: opTok, Arg: []int{tokBeginObject, tokBeginArray}[g.n(2)]})
		if g.p(0.5) {
			ops = append(ops, Op{Kind: opName}, Op{Kind: opOneValue, Arg: g.n(2)})
		}
		g.hit("script:unclosed")
	case x < 44: // one container closed too many
		ops = append(ops, Op{Kind: opOneValue, Arg: g.n(6)}, Op{Kind: opTok, Arg: []int{tokEndObject, tokEndArray}[g.n(2)]})
		g.hit("script:extra-close")
	case x < 48: // a name without a value
		ops = append(ops, Op{Kind: opTok, Arg: tokBeginObject}, Op{Kind: opName}, Op{Kind: opTok, Arg: tokEndObject})
		g.hit("script:name-without-value")
	case x < 52: // the container escape
		ops = append(ops, Op{Kind: opEscape})
		g.hit("script:escape")
	case x < 54: // … through several levels
		ops = append(ops, Op{Kind: opDeepEscape, Arg: 2 + g.n(3)})
		g.hit("script:deep-escape")
	case x < 55: // … attempted by a MarshalToFunc that runs inside a container opened by this script
		ops = append(ops, Op{Kind: opNestedEscape, Arg: 1 + g.n(3)})
		g.hit("script:nested-escape")
	case x < 56: // … blindly: k closing tokens of random kinds, k opening ones, some values
		k := 1 + g.n(3)
		for i := 0; i < k; i++ {
			ops = append(ops, Op{Kind: opTok, Arg: []int{tokEndObject, tokEndArray}[g.n(2)]})
		}
		for i := 0; i < k; i++ {
			ops = append(ops, Op{Kind: opTok, Arg: []int{tokBeginObject, tokBeginArray}[g.n(2)]})
		}
		for i, n := 0, g.n(4); i < n; i++ {
			if g.p(0.3) {
				ops = append(ops, Op{Kind: opName})
			} else {
				ops = append(ops, Op{Kind: opOneValue, Arg: g.n(2)})
			}
		}
		g.hit("script:blind-escape")
	case x < 67: // a nested MarshalEncode that fails part-way inside containers; the error is swallowed, the containers are completed by hand
		if g.p(0.3) {
			ops = append(ops, Op{Kind: opTok, Arg: []int{tokBeginArray, tokBeginObject}[g.n(2)]})
			if ops[0].Arg == tokBeginObject {
				ops = append(ops, Op{Kind: opTok, Arg: 12}) // the name "a"
			}
		}
		ops = append(ops, Op{Kind: opFailRecover, Arg: g.n(64), Arg2: g.n(64)})
		if len(ops) > 1 {
			ops = append(ops, Op{Kind: opCloseOwn})
		}
		g.hit("script:fail-part-way-then-complete-by-hand")
	case x < 72: // WriteValue with raw bytes
		b, cls := g.jsonBytes()
		ops = append(ops, Op{Kind: opVal, Raw: b})
		g.hit("script:writevalue-" + cls)
	case x < 78: // nested MarshalEncode
		ops = append(ops, Op{Kind: opNested, Arg: g.n(14), Arg2: g.n(6)})
		g.hit("script:nested-marshal")
	case x < 85: // an object written by hand: names from a small pool (so they repeat), values of every sort in between
		ops = append(ops, Op{Kind: opTok, Arg: tokBeginObject})
		for i, n := 0, 2+g.n(3); i < n; i++ {
			ops = append(ops, Op{Kind: opTok, Arg: 12 + g.n(2)}) // "a" or "b"
			switch y := g.n(10); {
			case y < 5:
				ops = append(ops, Op{Kind: opNested, Arg: 8 + g.n(6), Arg2: 0}) // untyped maps & co through MarshalEncode
			case y < 7:
				ops = append(ops, Op{Kind: opNested, Arg: g.n(14), Arg2: g.n(6)})
			default:
				ops = append(ops, Op{Kind: opOneValue, Arg: g.n(6)})
			}
		}
		ops = append(ops, Op{Kind: opTok, Arg: tokEndObject})
		g.hit("script:object-by-hand-with-repeated-names")
	default: // random walk over the encoder API
		n := 1 + g.n(7)
		for i := 0; i < n; i++ {
			switch y := g.n(10); {
			case y < 6:
				ops = append(ops, Op{Kind: opTok, Arg: g.n(len(tokTable))})
			case y < 7:
				b, _ := g.jsonBytes()
				ops = append(ops, Op{Kind: opVal, Raw: b})
			case y < 8:
				ops = append(ops, Op{Kind: opName})
			case y < 9:
				ops = append(ops, Op{Kind: opOneValue, Arg: g.n(6)})
			default:
				ops = append(ops, Op{Kind: opNested, Arg: g.n(8), Arg2: g.n(6)})
			}
		}
		g.hit("script:random-walk")
	}
	for _, o := range ops {
		if o.Kind == opNested && o.Arg%14 == 13 && g.cs != nil {
			g.cs.multiMap = true // that nested value is a map with two entries: iteration order is random
		}
	}
	return ops
}

// newBeh draws one behaviour (text: the byte result is a text, not JSON).
func (g *c02Gen) newBeh(text bool) *Beh {
	cs := g.cs
	b := &Beh{ID: len(cs.behs), tr: cs.tr}
	cs.behs = append(cs.behs, b)
	cs.userCode = true
	if text {
		b.Bytes = []byte(c02Texts[g.n(len(c02Texts))])
		if g.calm() {
			b.Bytes = []byte(c02Texts[g.n(7)])
		}
	} else {
		var cls string
		b.Bytes, cls = g.jsonBytes()
		g.hit("bytes:" + cls)
	}
	b.NilOut = g.p(0.04) && !g.calm()
	b.Script = g.script()
	x := g.n(100)
	if g.calm() {
		x = 0
	}
	switch {
	case x < 62:
		b.Ret = retNil
	case x < 72:
		b.Ret = retErr
	case x < 84:
		b.Ret = retUnsupported
	case x < 90:
		b.Ret = retWrapped
	case x < 95:
		b.Ret = retSemantic
	default:
		b.Ret = retSyntactic
	}
	g.hit(fmt.Sprintf("ret:%d", b.Ret))
	b.Early = b.Ret != retNil && g.p(0.4)
	if b.Ret != retNil {
		if b.Early {
			g.hit("ret-before-writing")
		} else {
			g.hit("ret-after-writing")
		}
	}
	b.Stop = g.p(0.4)
	b.Zero = g.p(0.3)
	if !g.calm() && g.p(0.05) {
		g.skipAfterWriting(b)
	}
	return b
}

var (
	c02Scalars = []reflect.Type{reflect.TypeFor[bool](), reflect.TypeFor[int](), reflect.TypeFor[int8](), reflect.TypeFor[int16](), reflect.TypeFor[int32](),
		reflect.TypeFor[int64](), reflect.TypeFor[uint](), reflect.TypeFor[uint8](), reflect.TypeFor[uint16](), reflect.TypeFor[uint32](), reflect.TypeFor[uint64](),
		reflect.TypeFor[uintptr](), reflect.TypeFor[float32](), reflect.TypeFor[float64](), reflect.TypeFor[string]()}
	c02UserTypes = []reflect.Type{reflect.TypeFor[UJ](), reflect.TypeFor[UJP](), reflect.TypeFor[UTo](), reflect.TypeFor[UToP](), reflect.TypeFor[UT](), reflect.TypeFor[UTP](),
		reflect.TypeFor[UA](), reflect.TypeFor[UAT](), reflect.TypeFor[UJT](), reflect.TypeFor[UAll](), reflect.TypeFor[UZ](), reflect.TypeFor[UStr](), reflect.TypeFor[UIntTo]()}
	c02Compiled = []reflect.Type{reflect.TypeFor[CDupKeys](), reflect.TypeFor[COmit](), reflect.TypeFor[COmit](), reflect.TypeFor[CTimes](), reflect.TypeFor[CTimesCustom](), reflect.TypeFor[CEmbed](), reflect.TypeFor[CEmbedMap](), reflect.TypeFor[CEmbedPtrRaw](), reflect.TypeFor[CTextKeyed](), reflect.TypeFor[CRecursive]()}
	c02Ifaces   = []reflect.Type{reflect.TypeFor[any](), reflect.TypeFor[any](), reflect.TypeFor[IfaceJ](), reflect.TypeFor[IfaceT](), reflect.TypeFor[IfaceTo]()}
	c02KeyTypes = []reflect.Type{reflect.TypeFor[string](), reflect.TypeFor[string](), reflect.TypeFor[int](), reflect.TypeFor[int8](), reflect.TypeFor[int64](), reflect.TypeFor[uint](),
		reflect.TypeFor[uint8](), reflect.TypeFor[uint64](), reflect.TypeFor[float32](), reflect.TypeFor[float64](), reflect.TypeFor[bool](), reflect.TypeFor[UT](), reflect.TypeFor[UStr](),
		reflect.TypeFor[UIntTo](), reflect.TypeFor[UJ](), reflect.TypeFor[UTo](), reflect.TypeFor[UA](), reflect.TypeFor[UAll](), reflect.TypeFor[any](), reflect.TypeFor[IfaceT](),
		reflect.TypeFor[[2]int8](), reflect.TypeFor[*int](), reflect.TypeFor[*UTP](), reflect.TypeFor[time.Time](), reflect.TypeFor[struct{ A int }](), reflect.TypeFor[complex64]()}
	c02RawType  = reflect.TypeFor[jsontext.Value]()
	c02TimeType = reflect.TypeFor[time.Time]()
	c02DurType  = reflect.TypeFor[time.Duration]()
	c02BytesTyp = reflect.TypeFor[[]byte]()
)

func (g *c02Gen) genType(d int) reflect.Type {
	x := g.n(100)
	if d <= 0 || g.big {
		if x >= 40 {
			x = g.n(40)
		}
	}
	switch {
	case x < 14:
		return c02Scalars[g.n(len(c02Scalars))]
	case x < 24:
		return c02UserTypes[g.n(len(c02UserTypes))]
	case x < 28:
		return c02Ifaces[g.n(len(c02Ifaces))]
	case x < 31:
		return c02RawType
	case x < 33:
		return c02BytesTyp
	case x < 34:
		return reflect.ArrayOf(g.n(4), reflect.TypeFor[byte]())
	case x < 36:
		return c02TimeType
	case x < 38:
		return c02DurType
	case x < 39:
		return []reflect.Type{reflect.TypeFor[complex128](), reflect.TypeFor[chan int](), reflect.TypeFor[func()](), reflect.TypeFor[struct{}]()}[g.n(4)]
	case x < 40:
		return reflect.PointerTo(c02UserTypes[g.n(len(c02UserTypes))])
	case x < 50:
		return reflect.SliceOf(g.genType(d - 1))
	case x < 54:
		return reflect.ArrayOf(g.n(4), g.genType(d-1))
	case x < 68:
		return reflect.MapOf(c02KeyTypes[g.n(len(c02KeyTypes))], g.genType(d-1))
	case x < 75:
		return reflect.PointerTo(g.genType(d - 1))
	case x < 80:
		return c02Compiled[g.n(len(c02Compiled))]
	default:
		return g.genStruct(d)
	}
}

func (g *c02Gen) genTag(t reflect.Type, canEmbed bool) (tag string, embedded bool) {
	if g.p(0.25) {
		return "", false
	}
	var sb strings.Builder
	if g.p(0.6) {
		sb.WriteString(c02TagNames[g.n(len(c02TagNames))])
	}
	if canEmbed && g.p(0.7) { // embedded struct / fallback: no other options allowed (sometimes add one anyway)
		sb.Reset()
		sb.WriteString(",embed")
		embedded = true
		if g.p(0.1) {
			sb.WriteString(",omitempty")
		}
		return sb.String(), embedded
	}
	for _, o := range []struct {
		s string
		p float64
	}{{"omitzero", 0.2}, {"omitempty", 0.25}, {"string", 0.15}, {"case:ignore", 0.05}, {"case:strict", 0.03}, {"embed", 0.02}, {"unknownopt", 0.02}, {"omitEmpty", 0.01}} {
		if g.p(o.p) {
			sb.WriteString("," + o.s)
		}
	}
	base := t
	for base.Kind() == reflect.Pointer {
		base = base.Elem()
	}
	switch {
	case base == c02TimeType && g.p(0.7):
		sb.WriteString(",format:" + c02TimeFormats[g.n(len(c02TimeFormats))])
	case base == c02DurType && g.p(0.7):
		sb.WriteString(",format:" + c02DurFormats[g.n(len(c02DurFormats))])
	case (base.Kind() == reflect.Slice || base.Kind() == reflect.Array) && base.Elem().Kind() == reflect.Uint8 && g.p(0.6):
		sb.WriteString(",format:" + c02BytesFormats[g.n(len(c02BytesFormats))])
	case (base.Kind() == reflect.Float32 || base.Kind() == reflect.Float64) && g.p(0.4):
		sb.WriteString(",format:nonfinite")
	case (base.Kind() == reflect.Map || base.Kind() == reflect.Slice) && g.p(0.3):
		sb.WriteString(",format:" + []string{"emitnull", "emitempty"}[g.n(2)])
	case g.p(0.12):
		sb.WriteString(",format:" + c02Formats[g.n(len(c02Formats))])
	}
	return sb.String(), false
}

// c02HasFormatTag: does some struct reachable from t carry a `format` tag option?
func c02HasFormatTag(t reflect.Type, seen map[reflect.Type]bool) bool {
	if seen[t] {
		return false
	}
	seen[t] = true
	switch t.Kind() {
	case reflect.Pointer, reflect.Slice, reflect.Array:
		return c02HasFormatTag(t.Elem(), seen)
	case reflect.Map:
		return c02HasFormatTag(t.Key(), seen) || c02HasFormatTag(t.Elem(), seen)
	case reflect.Struct:
		for i := 0; i < t.NumField(); i++ {
			f := t.Field(i)
			if strings.Contains(f.Tag.Get("json"), "format:") || c02HasFormatTag(f.Type, seen) {
				return true
			}
		}
	}
	return false
}

func c02CanEmbed(t reflect.Type) bool {
	if t.Kind() == reflect.Pointer {
		t = t.Elem()
	}
	return t == c02RawType || t.Kind() == reflect.Struct || (t.Kind() == reflect.Map && t.Key().Kind() == reflect.String)
}

func (g *c02Gen) genStruct(d int) (t reflect.Type) {
	n := g.n(7)
	switch x := g.n(200); {
	case x < 2:
		n = 65 + g.n(6)
		g.hit("struct:>64-fields")
	case x < 3:
		n = 129 + g.n(6)
		g.hit("struct:>128-fields")
	}
	wasBig := g.big
	if n > 20 {
		g.big = true
	}
	fields := make([]reflect.StructField, 0, n)
	for i := 0; i < n; i++ {
		var ft reflect.Type
		if x := g.n(100); x >= 88 { // values that are rendered as text/number under a `format` tag
			ft = []reflect.Type{c02TimeType, c02TimeType, c02TimeType, reflect.PointerTo(c02TimeType), c02DurType, c02DurType, c02BytesTyp, reflect.TypeFor[[4]byte](),
				reflect.TypeFor[float64](), reflect.TypeFor[map[string]time.Time](), reflect.TypeFor[[]time.Time]()}[g.n(11)]
			g.hit("struct:formatted-leaf-field")
		} else if x < 12 { // favour fallback-capable types inside structs
			ft = []reflect.Type{c02RawType, reflect.PointerTo(c02RawType), reflect.TypeFor[map[string]any](), reflect.TypeFor[map[string]jsontext.Value](),
				reflect.TypeFor[map[string]UJ](), reflect.TypeFor[map[UStr]int](), reflect.TypeFor[map[string]UTo](), reflect.TypeFor[*map[string]int]()}[g.n(8)]
		} else {
			ft = g.genType(d - 1)
		}
		f := reflect.StructField{Name: fmt.Sprintf("F%d", i), Type: ft}
		tag, emb := g.genTag(ft, c02CanEmbed(ft))
		if emb {
			g.hit("struct:embed-tag")
		}
		if tag != "" {
			f.Tag = reflect.StructTag(`json:` + strconv.Quote(tag))
		}
		fields = append(fields, f)
	}
	g.big = wasBig
	defer func() {
		if r := recover(); r != nil { // reflect refuses the layout: fall back to something it accepts
			g.hit("struct:reflect-refused")
			t = reflect.TypeFor[struct {
				A int `json:"a"`
				B UJ  `json:"b,omitempty"`
			}]()
		}
	}()
	return reflect.StructOf(fields)
}

func (g *c02Gen) str() string {
	if g.calm() {
		return c02Strings[g.n(11)] // the well-formed ones
	}
	return c02Strings[g.n(len(c02Strings))]
}

func (g *c02Gen) float() float64 {
	if g.calm() {
		return []float64{0, 1.5, -123456789.125, 1e21, 1e-7}[g.n(5)]
	}
	switch g.n(14) {
	case 0:
		return 0
	case 1:
		return math.Copysign(0, -1)
	case 2:
		return math.NaN()
	case 3:
		return math.Inf(1)
	case 4:
		return math.Inf(-1)
	case 5:
		return math.MaxFloat64
	case 6:
		return math.SmallestNonzeroFloat64
	case 7:
		return 1e21
	case 8:
		return 1e-7
	case 9:
		return -123456789.125
	case 10:
		return float64(math.MaxFloat32)
	default:
		return math.Float64frombits(g.r.Uint64())
	}
}

func (g *c02Gen) rawValue() jsontext.Value {
	if g.p(0.08) {
		return nil
	}
	b, cls := g.jsonBytes()
	g.hit("raw-field:" + cls)
	return jsontext.Value(b)
}

func (g *c02Gen) rawObject() jsontext.Value { // for fallback members: mostly objects
	objs := []string{`{}`, `{"a":1}`, `{"e1":1,"u1":2}`, `{"a":1,"a":2}`, `{"a":1}`, "{\"\xff\":1,\"\xfe\":2}", `{"\ud800":1,"\udc00":2}`, `{"F0":1,"f0":2,"A":3}`,
		` { "k" : [ 1 , { "k" : 1 , "k" : 2 } ] } `, `{"x":1} x`, `{"x":`, `[]`, `null`, ``, ` `, `{"a":"\xff"}`, `{"dflt":{"dflt":1}}`, `{"b":1,"日本":2,"x y":3,"<&>":4}`, `{"":1,"-":2}`}
	s := objs[g.n(len(objs))]
	if g.calm() {
		s = []string{`{}`, `{"a":1}`, `{"e1":1,"u1":2}`, `{"b":1,"日本":2,"x y":3,"<&>":4}`, `{"":1,"-":2}`, ` { "k" : [ 1 , { "k" : 1 } ] } `}[g.n(6)]
	}
	return jsontext.Value(s)
}

func (g *c02Gen) timeValue() time.Time {
	if g.calm() {
		return time.Date(2026, 9, 23, 17, 2, 3, 450000000, time.FixedZone("CEST", 2*3600))
	}
	if g.p(0.45) { // a Location whose abbreviation is adversarial text (printed by the layouts that contain MST)
		name := c02ZoneNames[g.n(len(c02ZoneNames))]
		g.hit("time:adversarial-zone-name")
		off := []int{0, 3600, -7 * 3600, 3601, 14*3600 + 59*60, -1}[g.n(6)]
		return time.Date(2021+g.n(3), time.Month(1+g.n(12)), 1+g.n(28), g.n(24), g.n(60), g.n(60), g.n(2)*123456789, time.FixedZone(name, off))
	}
	switch g.n(8) {
	case 0:
		return time.Time{}
	case 1:
		return time.Date(10000, 1, 1, 0, 0, 0, 0, time.UTC)
	case 2:
		return time.Date(-1, 12, 31, 23, 59, 59, 999999999, time.UTC)
	case 3:
		return time.Date(2024, 2, 29, 12, 0, 0, 1, time.FixedZone("odd", 3601))
	case 4:
		return time.Date(2000, 1, 1, 0, 0, 0, 0, time.FixedZone("\"q\\", -23*3600-59*60))
	case 5:
		return time.Unix(g.r.Int64N(1<<40)-(1<<39), g.r.Int64N(1e9)).UTC()
	case 6:
		return time.Unix(math.MaxInt64/2, 0)
	default:
		return time.Date(2026, 9, 23, 17, 2, 3, 450000000, time.FixedZone("", 5*3600+30*60))
	}
}

// genValue builds a value of type t.
func (g *c02Gen) genValue(t reflect.Type, d int) reflect.Value {
	v := reflect.New(t).Elem()
	switch t { // exact types first
	case reflect.TypeFor[UJ]():
		g.kind("user:MarshalJSON")
		return reflect.ValueOf(UJ{g.mayNilBeh(false)})
	case reflect.TypeFor[UJP]():
		g.kind("user:MarshalJSON-ptr")
		return reflect.ValueOf(UJP{g.mayNilBeh(false)})
	case reflect.TypeFor[UTo]():
		g.kind("user:MarshalJSONTo")
		return reflect.ValueOf(UTo{g.mayNilBeh(false)})
	case reflect.TypeFor[UToP]():
		g.kind("user:MarshalJSONTo-ptr")
		return reflect.ValueOf(UToP{g.mayNilBeh(false)})
	case reflect.TypeFor[UT]():
		g.kind("user:MarshalText")
		return reflect.ValueOf(UT{g.mayNilBeh(true)})
	case reflect.TypeFor[UTP]():
		g.kind("user:MarshalText-ptr")
		return reflect.ValueOf(UTP{g.mayNilBeh(true)})
	case reflect.TypeFor[UA]():
		g.kind("user:AppendText")
		return reflect.ValueOf(UA{g.mayNilBeh(true)})
	case reflect.TypeFor[UAT]():
		g.kind("user:AppendText+MarshalText")
		return reflect.ValueOf(UAT{g.mayNilBeh(true)})
	case reflect.TypeFor[UJT]():
		g.kind("user:MarshalJSON+MarshalText")
		return reflect.ValueOf(UJT{g.mayNilBeh(false)})
	case reflect.TypeFor[UAll]():
		g.kind("user:all-methods")
		return reflect.ValueOf(UAll{g.mayNilBeh(false)})
	case reflect.TypeFor[UZ]():
		g.kind("user:MarshalJSON+IsZero")
		return reflect.ValueOf(UZ{g.mayNilBeh(false)})
	case reflect.TypeFor[UStr]():
		g.kind("user:string-kind-MarshalText")
		g.cs.userCode = true
		if g.calm() {
			return reflect.ValueOf(UStr([]string{"plain", "a", "日本", "Rq\"\\\n"}[g.n(4)]))
		}
		return reflect.ValueOf(UStr([]string{"", "plain", "Eboom", "R\xff", "Rq\"\\\n", "Rdup", "dup", "a", "R", "日本"}[g.n(10)]))
	case reflect.TypeFor[UIntTo]():
		g.kind("user:int-kind-MarshalJSONTo")
		g.cs.userCode = true
		return reflect.ValueOf(UIntTo(g.n(12)))
	case c02RawType:
		g.kind("jsontext.Value")
		return reflect.ValueOf(g.rawValue())
	case c02TimeType:
		g.kind("time.Time")
		return reflect.ValueOf(g.timeValue())
	case c02DurType:
		g.kind("time.Duration")
		return reflect.ValueOf([]time.Duration{0, 1, -1, math.MinInt64, math.MaxInt64, 90 * time.Minute, -1500 * time.Millisecond, time.Duration(g.r.Int64()), 1500, -999999, 25*time.Hour + 1}[g.n(11)])
	case reflect.TypeFor[CEmbed]():
		g.kind("compiled:CEmbed")
		c := CEmbed{EmbInner: EmbInner{g.n(3), g.str()}, Value: g.rawObject(), X: UTo{g.mayNilBeh(false)}}
		if g.p(0.6) {
			c.embUnexp = &embUnexp{g.n(3), UJ{g.mayNilBeh(false)}}
		}
		return reflect.ValueOf(c)
	case reflect.TypeFor[CTimes]():
		g.kind("compiled:CTimes")
		t := g.timeValue()
		d := time.Duration(g.r.Int64N(1e13)) - 5e12
		var h time.Time
		if g.p(0.3) {
			h = g.timeValue()
		}
		return reflect.ValueOf(CTimes{t, t, t, t, &t, h, d, d})
	case reflect.TypeFor[CDupKeys]():
		g.kind("compiled:CDupKeys")
		g.cs.userCode = true
		anyv := func() any {
			return []any{map[string]any{"x": 1}, map[string]any{"x": []any{}}, 2, "s", []any{1}, map[string]any{}, nil, map[string]int{"t": 1}}[g.n(8)]
		}
		c := CDupKeys{M: map[UStr]any{}}
		keys := []UStr{"Rdup", "dup", "plain", "Rplain", "a", "Ra"}
		for i, n := 0, 1+g.n(4); i < n; i++ {
			c.M[keys[g.n(len(keys))]] = anyv()
		}
		if g.p(0.5) {
			c.N = map[UT]any{}
			for i, n := 0, 1+g.n(3); i < n; i++ {
				c.N[UT{&Beh{ID: -6, Bytes: []byte([]string{"k", "k", "l"}[g.n(3)]), tr: g.cs.tr}}] = anyv()
			}
		}
		if len(c.M) > 1 || len(c.N) > 1 {
			g.cs.multiMap = true
		}
		return reflect.ValueOf(c)
	case reflect.TypeFor[COmit]():
		g.kind("compiled:COmit")
		empties := []any{[]int{}, map[string]int{}, []any{}, map[string]any{}, "", (*int)(nil), struct{}{}, &struct{}{}, jsontext.Value("null"), jsontext.Value(`""`), []string(nil)}
		anyv := func() any { // empty-producing or not
			if g.p(0.6) {
				return empties[g.n(len(empties))]
			}
			return []any{1, "x", []int{1}, map[string]int{"k": 1}, nil}[g.n(5)]
		}
		emptyUJ := func() *Beh {
			b := g.newBeh(false)
			if g.p(0.7) {
				b.Bytes, b.Ret, b.Early, b.NilOut = []byte([]string{`null`, `""`, `{}`, `[]`, ` [ ] `, `"x"`}[g.n(6)]), retNil, false, false
			}
			return b
		}
		c := COmit{A: anyv(), B: g.n(3), D: UJ{emptyUJ()}, E: anyv(), F: g.str(), J: anyv()}
		if g.p(0.6) {
			c.C = &struct{}{}
		}
		if g.p(0.6) {
			c.G = UJ{emptyUJ()}
		}
		if g.p(0.6) {
			c.H = map[string]any{}
			if g.p(0.3) {
				c.H["k"] = 1
			}
		}
		if g.p(0.6) {
			c.I = &[]int{}
		}
		return reflect.ValueOf(c)
	case reflect.TypeFor[CTimesCustom]():
		g.kind("compiled:CTimesCustom")
		t := g.timeValue()
		return reflect.ValueOf(CTimesCustom{t, t, map[string]time.Time{"t": t}, map[time.Time]time.Time{t: t}})
	case reflect.TypeFor[CEmbedMap]():
		g.kind("compiled:CEmbedMap")
		c := CEmbedMap{To: UTo{g.mayNilBeh(false)}}
		if g.p(0.6) {
			c.EmbInner = &EmbInner{1, g.str()}
		}
		if g.p(0.8) {
			c.M = map[string]UJ{}
			for i, n := 0, g.n(4); i < n; i++ {
				c.M[g.str()] = UJ{g.mayNilBeh(false)}
			}
			if len(c.M) > 1 {
				g.cs.multiMap = true
			}
		}
		return reflect.ValueOf(c)
	case reflect.TypeFor[CEmbedPtrRaw]():
		g.kind("compiled:CEmbedPtrRaw")
		c := CEmbedPtrRaw{EmbInner: EmbInner{0, g.str()}, T: g.timeValue()}
		if g.p(0.8) {
			r := g.rawObject()
			c.P = &r
		}
		return reflect.ValueOf(c)
	case reflect.TypeFor[CRecursive]():
		g.kind("compiled:CRecursive")
		var mk func(d int) CRecursive
		mk = func(d int) CRecursive {
			c := CRecursive{Name: g.str()}
			if g.p(0.5) {
				c.U = &UToP{g.mayNilBeh(false)}
			}
			if d > 0 {
				for i, n := 0, g.n(3); i < n; i++ {
					c.Kids = append(c.Kids, mk(d-1))
				}
				if g.p(0.3) {
					c.Any = g.genValue(g.genType(d-1), d-1).Interface()
				}
			}
			return c
		}
		return reflect.ValueOf(mk(min(d, 2)))
	}
	switch t.Kind() {
	case reflect.Bool:
		g.kind("bool")
		v.SetBool(g.p(0.5))
	case reflect.Int, reflect.Int8, reflect.Int16, reflect.Int32, reflect.Int64:
		g.kind("int")
		bits := t.Bits()
		switch g.n(6) {
		case 0:
		case 1:
			v.SetInt(-1)
		case 2:
			v.SetInt(-1 << (bits - 1))
		case 3:
			v.SetInt(1<<(bits-1) - 1)
		default:
			v.SetInt(g.r.Int64() >> (64 - bits))
		}
	case reflect.Uint, reflect.Uint8, reflect.Uint16, reflect.Uint32, reflect.Uint64, reflect.Uintptr:
		g.kind("uint")
		bits := t.Bits()
		switch g.n(4) {
		case 0:
		case 1:
			v.SetUint(math.MaxUint64 >> (64 - bits))
		default:
			v.SetUint(g.r.Uint64() >> (64 - bits))
		}
	case reflect.Float32, reflect.Float64:
		f := g.float()
		switch {
		case math.IsNaN(f) || math.IsInf(f, 0):
			g.kind("float-nonfinite")
		case f == 0 && math.Signbit(f):
			g.kind("float-negzero")
		default:
			g.kind("float")
		}
		v.SetFloat(f)
	case reflect.Complex64, reflect.Complex128:
		g.kind("complex")
		v.SetComplex(complex(1, 2))
	case reflect.String:
		s := g.str()
		if strings.ToValidUTF8(s, "") != s {
			g.kind("string-invalid-utf8")
		} else {
			g.kind("string")
		}
		v.SetString(s)
	case reflect.Slice:
		if t.Elem().Kind() == reflect.Uint8 {
			g.kind("[]byte")
			switch g.n(4) {
			case 0:
			case 1:
				v.SetBytes([]byte{})
			default:
				b := make([]byte, g.n(40))
				for i := range b {
					b[i] = byte(g.r.Uint32())
				}
				v.SetBytes(b)
			}
			return v
		}
		switch g.n(5) {
		case 0:
			g.kind("slice-nil")
		case 1:
			g.kind("slice-empty")
			v.Set(reflect.MakeSlice(t, 0, 0))
		default:
			g.kind("slice")
			n := 1 + g.n(3)
			if d <= 0 {
				n = 1
			}
			s := reflect.MakeSlice(t, n, n)
			for i := 0; i < n; i++ {
				g.pos = "slice-element"
				s.Index(i).Set(g.genValue(t.Elem(), d-1))
			}
			v.Set(s)
		}
	case reflect.Array:
		if t.Elem().Kind() == reflect.Uint8 {
			g.kind("[N]byte")
		} else {
			g.kind("array")
		}
		for i := 0; i < t.Len(); i++ {
			g.pos = "array-element"
			v.Index(i).Set(g.genValue(t.Elem(), d-1))
		}
	case reflect.Map:
		kk := t.Key().Kind().String()
		if t.Key().PkgPath() != "" {
			kk = t.Key().String()
		}
		switch g.n(6) {
		case 0:
			g.kind("map-nil")
		case 1:
			g.kind("map-empty")
			v.Set(reflect.MakeMap(t))
		default:
			g.kind("map")
			g.hit("mapkey:" + kk)
			n := 1 + g.n(3)
			if d <= 0 {
				n = 1
			}
			m := reflect.MakeMap(t)
			for i := 0; i < n; i++ {
				g.pos = "map-key"
				k := g.genKey(t.Key())
				if !k.IsValid() {
					continue
				}
				g.pos = "map-value"
				m.SetMapIndex(k, g.genValue(t.Elem(), d-1))
			}
			if m.Len() > 1 {
				g.cs.multiMap = true
			}
			v.Set(m)
		}
	case reflect.Pointer:
		if g.p(0.2) {
			g.kind("pointer-nil")
			if g.pos == "behind-interface" {
				g.hit("kind:interface-holding-nil-pointer")
			}
			return v
		}
		g.kind("pointer")
		if g.pos == "behind-interface" {
			g.hit("kind:interface-holding-pointer")
		}
		p := reflect.New(t.Elem())
		g.pos = "behind-pointer"
		p.Elem().Set(g.genValue(t.Elem(), d-1))
		v.Set(p)
	case reflect.Interface:
		if g.p(0.15) {
			g.kind("interface-nil")
			return v
		}
		g.kind("interface")
		var ct reflect.Type
		switch t {
		case reflect.TypeFor[IfaceJ]():
			ct = []reflect.Type{reflect.TypeFor[UJ](), reflect.TypeFor[*UJP](), reflect.TypeFor[UZ](), reflect.TypeFor[UJT](), reflect.TypeFor[jsontext.Value]()}[g.n(5)]
		case reflect.TypeFor[IfaceT]():
			ct = []reflect.Type{reflect.TypeFor[UT](), reflect.TypeFor[*UTP](), reflect.TypeFor[UStr](), reflect.TypeFor[UAT](), reflect.TypeFor[time.Time]()}[g.n(5)]
		case reflect.TypeFor[IfaceTo]():
			ct = []reflect.Type{reflect.TypeFor[UTo](), reflect.TypeFor[*UToP](), reflect.TypeFor[UAll](), reflect.TypeFor[UIntTo]()}[g.n(4)]
		default:
			ct = g.genType(d - 1)
			if ct.Kind() == reflect.Interface { // an interface cannot directly hold an interface
				ct = reflect.PointerTo(ct)
			}
		}
		g.pos = "behind-interface"
		v.Set(g.genValue(ct, d-1))
	case reflect.Struct:
		g.kind("struct")
		for i := 0; i < t.NumField(); i++ {
			f := t.Field(i)
			if !f.IsExported() || g.p(0.15) {
				continue // leave zero
			}
			ft := f.Type
			tag := f.Tag.Get("json")
			if strings.Contains(tag, ",embed") && (ft == c02RawType || ft == reflect.PointerTo(c02RawType)) {
				g.kind("fallback-raw")
				r := g.rawObject()
				if ft == c02RawType {
					v.Field(i).Set(reflect.ValueOf(r))
				} else if g.p(0.85) {
					v.Field(i).Set(reflect.ValueOf(&r))
				}
				continue
			}
			g.pos = "struct-field"
			for _, o := range []string{"omitempty", "omitzero", "string", "format"} {
				if strings.Contains(tag, ","+o) {
					g.pos += "+" + o
				}
			}
			if strings.Contains(tag, ",embed") {
				g.pos = "embedded-struct"
				if ft.Kind() == reflect.Map {
					g.kind("fallback-map")
					g.pos = "embedded-fallback-map"
				}
			}
			dd := d - 1
			if t.NumField() > 20 {
				dd = 0
			}
			v.Field(i).Set(g.genValue(ft, dd))
		}
	case reflect.Chan, reflect.Func:
		g.kind("unsupported-kind")
		if g.p(0.5) && t.Kind() == reflect.Chan {
			v.Set(reflect.MakeChan(t, 0))
		}
	}
	return v
}

func (g *c02Gen) mayNilBeh(text bool) *Beh {
	if g.p(0.05) {
		return nil
	}
	return g.newBeh(text)
}

// genKey builds a map key (hashable by construction).
func (g *c02Gen) genKey(t reflect.Type) reflect.Value {
	switch t.Kind() {
	case reflect.Float32, reflect.Float64:
		v := reflect.New(t).Elem()
		v.SetFloat([]float64{0, math.Copysign(0, -1), math.NaN(), math.NaN(), math.Inf(1), math.Inf(-1), 1.5, 1e21, -1e-7, 3}[g.n(10)])
		if g.calm() {
			v.SetFloat([]float64{0, 1.5, 1e21, -1e-7, 3}[g.n(5)])
		}
		return v
	case reflect.Interface:
		if t == reflect.TypeFor[IfaceT]() {
			return g.genValue(t, 0)
		}
		switch g.n(6) {
		case 0:
			return reflect.Zero(t)
		case 1:
			return g.ifaceOf(t, reflect.ValueOf(g.str()))
		case 2:
			return g.ifaceOf(t, reflect.ValueOf(g.n(3)))
		case 3:
			return g.ifaceOf(t, g.genValue(reflect.TypeFor[UT](), 0))
		case 4:
			return g.ifaceOf(t, reflect.ValueOf(g.float()))
		default:
			return g.ifaceOf(t, g.genValue(reflect.TypeFor[UStr](), 0))
		}
	}
	return g.genValue(t, 0)
}

func (g *c02Gen) ifaceOf(t reflect.Type, x reflect.Value) reflect.Value {
	v := reflect.New(t).Elem()
	v.Set(x)
	return v
}

// ---- options ------------------------------------------------------------------------------------

type c02Opt struct {
	name string
	mk   func(g *c02Gen) jsonv2.Options
}

func c02BoolOpt(name string, f func(bool) jsonv2.Options) []c02Opt {
	return []c02Opt{{name + "=true", func(*c02Gen) jsonv2.Options { return f(true) }}, {name + "=true", func(*c02Gen) jsonv2.Options { return f(true) }},
		{name + "=false", func(*c02Gen) jsonv2.Options { return f(false) }}}
}

var c02OptTable = func() []c02Opt {
	var t []c02Opt
	for _, o := range []struct {
		n string
		f func(bool) jsonv2.Options
	}{
		{"AllowDuplicateNames", jsontext.AllowDuplicateNames}, {"AllowInvalidUTF8", jsontext.AllowInvalidUTF8}, {"AllowDuplicateNames", jsontext.AllowDuplicateNames},
		{"AllowInvalidUTF8", jsontext.AllowInvalidUTF8}, {"EscapeForHTML", jsontext.EscapeForHTML}, {"EscapeForJS", jsontext.EscapeForJS},
		{"PreserveRawStrings", jsontext.PreserveRawStrings}, {"CanonicalizeRawInts", jsontext.CanonicalizeRawInts}, {"CanonicalizeRawFloats", jsontext.CanonicalizeRawFloats},
		{"ReorderRawObjects", jsontext.ReorderRawObjects}, {"SpaceAfterColon", jsontext.SpaceAfterColon}, {"SpaceAfterComma", jsontext.SpaceAfterComma},
		{"Multiline", jsontext.Multiline}, {"Deterministic", jsonv2.Deterministic}, {"Deterministic", jsonv2.Deterministic}, {"StringifyNumbers", jsonv2.StringifyNumbers},
		{"FormatNilSliceAsNull", jsonv2.FormatNilSliceAsNull}, {"FormatNilMapAsNull", jsonv2.FormatNilMapAsNull}, {"OmitZeroStructFields", jsonv2.OmitZeroStructFields},
		{"MatchCaseInsensitiveNames", jsonv2.MatchCaseInsensitiveNames}, {"RejectUnknownMembers", jsonv2.RejectUnknownMembers},
		{"v1.CallMethodsWithLegacySemantics", jsonv1.CallMethodsWithLegacySemantics}, {"v1.FormatByteArrayAsArray", jsonv1.FormatByteArrayAsArray},
		{"v1.FormatBytesWithLegacySemantics", jsonv1.FormatBytesWithLegacySemantics}, {"v1.FormatDurationAsNano", jsonv1.FormatDurationAsNano},
		{"v1.MatchCaseSensitiveDelimiter", jsonv1.MatchCaseSensitiveDelimiter}, {"v1.OmitEmptyWithLegacySemantics", jsonv1.OmitEmptyWithLegacySemantics},
		{"v1.ReportErrorsWithLegacySemantics", jsonv1.ReportErrorsWithLegacySemantics}, {"v1.StringifyWithLegacySemantics", jsonv1.StringifyWithLegacySemantics},
		{"v1.MergeWithLegacySemantics", jsonv1.MergeWithLegacySemantics},
	} {
		t = append(t, c02BoolOpt(o.n, o.f)...)
	}
	indents := []string{"", " ", "\t", "  \t ", strings.Repeat(" ", 17)}
	t = append(t,
		c02Opt{"WithIndent", func(g *c02Gen) jsonv2.Options { return jsontext.WithIndent(indents[g.n(len(indents))]) }},
		c02Opt{"WithIndent", func(g *c02Gen) jsonv2.Options { return jsontext.WithIndent(indents[g.n(len(indents))]) }},
		c02Opt{"WithIndentPrefix", func(g *c02Gen) jsonv2.Options { return jsontext.WithIndentPrefix(indents[g.n(len(indents))]) }},
		c02Opt{"DefaultOptionsV1", func(*c02Gen) jsonv2.Options { return jsonv1.DefaultOptionsV1() }},
		c02Opt{"DefaultOptionsV1", func(*c02Gen) jsonv2.Options { return jsonv1.DefaultOptionsV1() }},
		c02Opt{"DefaultOptionsV1", func(*c02Gen) jsonv2.Options { return jsonv1.DefaultOptionsV1() }},
		c02Opt{"DefaultOptionsV2", func(*c02Gen) jsonv2.Options { return jsonv2.DefaultOptionsV2() }},
		c02Opt{"nil-Marshalers", func(*c02Gen) jsonv2.Options { return jsonv2.WithMarshalers(nil) }},
	)
	return t
}()

// skipAfterWriting: the function writes a few tokens (container openers included) and THEN returns errors.ErrUnsupported
// ("skip me"), so that the next function of the chain or the default arshaler continues — inside whatever was left open.
func (g *c02Gen) skipAfterWriting(b *Beh) {
	seqs := [][]Op{
		{{Kind: opTok, Arg: tokBeginArray}},
		{{Kind: opTok, Arg: tokBeginObject}},
		{{Kind: opTok, Arg: tokBeginArray}, {Kind: opTok, Arg: tokBeginArray}},
		{{Kind: opTok, Arg: tokBeginObject}, {Kind: opName}},
		{{Kind: opTok, Arg: tokBeginArray}, {Kind: opOneValue, Arg: 0}},
		{{Kind: opOneValue, Arg: 0}},
		{{Kind: opTok, Arg: tokBeginObject}, {Kind: opName}, {Kind: opTok, Arg: tokBeginArray}},
		{{Kind: opTok, Arg: tokBeginArray}, {Kind: opTok, Arg: tokEndArray}, {Kind: opTok, Arg: tokBeginArray}},
	}
	b.Script = seqs[g.n(len(seqs))]
	b.Ret = []int{retUnsupported, retUnsupported, retWrapped}[g.n(3)]
	b.Early, b.Stop, b.Skip, b.NilOut = false, false, 0, false
	g.hit("script:write-tokens-then-return-ErrUnsupported")
}

func c02Funcs[T any](g *c02Gen, text bool) *jsonv2.Marshalers {
	b := g.newBeh(false)
	name := reflect.TypeFor[T]().String()
	if g.p(0.5) {
		g.hit("marshalers:MarshalFunc[" + name + "]")
		return jsonv2.MarshalFunc(func(T) ([]byte, error) { return b.bytesResult(defaultBeh) })
	}
	g.hit("marshalers:MarshalToFunc[" + name + "]")
	if g.p(0.3) {
		g.skipAfterWriting(b)
	} else if g.p(0.6) {
		b.Skip = g.n(6)
		if b.Skip > 0 {
			g.cs.counters = true
		}
	}
	return jsonv2.MarshalToFunc(func(enc *jsontext.Encoder, _ T) error { return b.run(enc) })
}

// c02FuncIndex: which of the marshal-function types below applies to values of type t (or to its elements), -1 if none.
func c02FuncIndex(t reflect.Type) int {
	tab := []reflect.Type{nil, reflect.TypeFor[int](), reflect.TypeFor[string](), reflect.TypeFor[bool](), reflect.TypeFor[float64](), reflect.TypeFor[[]int](),
		reflect.TypeFor[map[string]int](), reflect.TypeFor[UJ](), reflect.TypeFor[UT](), reflect.TypeFor[UTo](), c02TimeType, c02RawType, c02BytesTyp,
		reflect.TypeFor[IfaceJ](), reflect.TypeFor[*int](), reflect.TypeFor[*UJP](), reflect.TypeFor[UStr]()}
	for hop := 0; hop < 3 && t != nil; hop++ {
		for i, x := range tab {
			if x == t {
				return i
			}
		}
		switch t.Kind() {
		case reflect.Slice, reflect.Array, reflect.Pointer, reflect.Map:
			t = t.Elem()
		default:
			t = nil
		}
	}
	return -1
}

func (g *c02Gen) marshalers() *jsonv2.Marshalers {
	var ms []*jsonv2.Marshalers
	prev := -1
	for i, n := 0, 1+g.n(3); i < n; i++ {
		var m *jsonv2.Marshalers
		pick := g.n(17)
		if x := c02FuncIndex(g.cs.typ); g.p(0.45) { // a function that is actually reached: for the case's own type, or for `any`
			pick = 0
			if x >= 0 && g.p(0.7) {
				pick = x
			}
		}
		if prev >= 0 && g.p(0.35) { // chains: a second function for the same type continues where the first one skipped
			pick = prev
		}
		prev = pick
		switch pick {
		case 0:
			m = c02Funcs[any](g, false)
		case 1:
			m = c02Funcs[int](g, false)
		case 2:
			m = c02Funcs[string](g, false)
		case 3:
			m = c02Funcs[bool](g, false)
		case 4:
			m = c02Funcs[float64](g, false)
		case 5:
			m = c02Funcs[[]int](g, false)
		case 6:
			m = c02Funcs[map[string]int](g, false)
		case 7:
			m = c02Funcs[UJ](g, false)
		case 8:
			m = c02Funcs[UT](g, false)
		case 9:
			m = c02Funcs[UTo](g, false)
		case 10:
			m = c02Funcs[time.Time](g, false)
		case 11:
			m = c02Funcs[jsontext.Value](g, false)
		case 12:
			m = c02Funcs[[]byte](g, false)
		case 13:
			m = c02Funcs[IfaceJ](g, false)
		case 14:
			m = c02Funcs[*int](g, false)
		case 15:
			m = c02Funcs[*UJP](g, false)
		default:
			m = c02Funcs[UStr](g, false)
		}
		ms = append(ms, m)
	}
	if len(ms) == 1 && g.p(0.5) {
		return ms[0]
	}
	return jsonv2.JoinMarshalers(ms...)
}

func (g *c02Gen) genOpts() {
	cs := g.cs
	n := 0
	switch x := g.n(10); {
	case x < 2:
	case x < 5:
		n = 1
	case x < 8:
		n = 2 + g.n(2)
	default:
		n = 4 + g.n(5)
	}
	for i := 0; i < n; i++ {
		o := c02OptTable[g.n(len(c02OptTable))]
		cs.opts = append(cs.opts, o.mk(g))
		cs.optNames = append(cs.optNames, o.name)
		g.hit("opt:" + o.name)
	}
	if g.p(0.3) {
		cs.opts = append(cs.opts, jsonv2.WithMarshalers(g.marshalers()))
		cs.optNames = append(cs.optNames, "WithMarshalers")
		g.hit("opt:WithMarshalers")
	}
	if cs.userCode || cs.kinds["jsontext.Value"] || cs.kinds["fallback-raw"] {
		// options that change how RAW values are re-encoded matter most where raw values occur
		if g.p(0.35) {
			o := []c02Opt{
				{"PreserveRawStrings=true", func(*c02Gen) jsonv2.Options { return jsontext.PreserveRawStrings(true) }},
				{"PreserveRawStrings=true", func(*c02Gen) jsonv2.Options { return jsontext.PreserveRawStrings(true) }},
				{"CanonicalizeRawInts=true", func(*c02Gen) jsonv2.Options { return jsontext.CanonicalizeRawInts(true) }},
				{"CanonicalizeRawFloats=true", func(*c02Gen) jsonv2.Options { return jsontext.CanonicalizeRawFloats(true) }},
				{"ReorderRawObjects=true", func(*c02Gen) jsonv2.Options { return jsontext.ReorderRawObjects(true) }},
				{"EscapeForHTML=true", func(*c02Gen) jsonv2.Options { return jsontext.EscapeForHTML(true) }},
				{"EscapeForJS=true", func(*c02Gen) jsonv2.Options { return jsontext.EscapeForJS(true) }},
			}[g.n(7)]
			cs.opts = append(cs.opts, o.mk(g))
			cs.optNames = append(cs.optNames, o.name)
			g.hit("opt:" + o.name)
			g.hit("opt:raw-affecting-option-with-raw-content")
		}
	}
	if g.p(0.25) { // the whitespace options in every combination (they interact: unwriting of omitempty members, fast paths)
		ws := []c02Opt{
			{"SpaceAfterComma=true", func(*c02Gen) jsonv2.Options { return jsontext.SpaceAfterComma(true) }},
			{"SpaceAfterColon=true", func(*c02Gen) jsonv2.Options { return jsontext.SpaceAfterColon(true) }},
			{"Multiline=true", func(*c02Gen) jsonv2.Options { return jsontext.Multiline(true) }},
			{"WithIndent", func(g *c02Gen) jsonv2.Options { return jsontext.WithIndent([]string{" ", "\t", "  "}[g.n(3)]) }},
			{"WithIndentPrefix", func(g *c02Gen) jsonv2.Options { return jsontext.WithIndentPrefix([]string{" ", "\t\t"}[g.n(2)]) }},
			{"SpaceAfterComma=false", func(*c02Gen) jsonv2.Options { return jsontext.SpaceAfterComma(false) }},
			{"Multiline=false", func(*c02Gen) jsonv2.Options { return jsontext.Multiline(false) }},
		}
		any := false
		for _, o := range ws {
			if g.p(0.4) {
				cs.opts = append(cs.opts, o.mk(g))
				cs.optNames = append(cs.optNames, o.name)
				any = true
			}
		}
		if any {
			g.hit("opt:whitespace-combination")
		}
	}
	if (c02HasFormatTag(cs.typ, map[reflect.Type]bool{}) && g.p(0.85)) || g.p(0.05) { // `format` tags are honoured only with this option
		i := g.n(len(cs.opts) + 1)
		cs.opts = append(cs.opts[:i:i], append([]jsonv2.Options{jsonv2.ExperimentalSupportFormatTag(true)}, cs.opts[i:]...)...)
		cs.optNames = append(cs.optNames, "ExperimentalSupportFormatTag=true")
		g.hit("opt:ExperimentalSupportFormatTag=true")
	}
	if len(cs.opts) > 1 && g.p(0.3) { // nest them
		cs.opts = []jsonv2.Options{jsonv2.JoinOptions(cs.opts...)}
	}
}

// ================================================================================================
// 3. Running one program through every entry point
// ================================================================================================

type c02Writer struct{ b []byte }

func (w *c02Writer) Write(p []byte) (int, error) { w.b = append(w.b, p...); return len(p), nil }

type c02Run struct {
	ep      string
	out     []byte
	err     error
	pan     any
	tr      Trace
	want    int  // expected number of top-level values
	wantLen int  // expected number of children of the first value (-1: not checked)
	dup     bool // judged allowing duplicate names
	bad     bool // judged allowing invalid UTF-8
	stack   string
	encDup  bool // (MarshalEncode into a positioned Encoder) AllowDuplicateNames of the Encoder itself
	callDup bool // … and as in force during the call
}

// c02Stack returns the frames of a panic that lie inside the library (trimmed).
func c02Stack() string {
	var keep []string
	lines := strings.Split(string(debug.Stack()), "\n")
	for i := 0; i+1 < len(lines) && len(keep) < 14; i++ {
		if strings.HasPrefix(lines[i], "github.com/go-json-experiment/json") || strings.HasPrefix(lines[i], "reflect.") || strings.HasPrefix(lines[i], "main.(") {
			keep = append(keep, strings.TrimSpace(lines[i])+" @ "+strings.TrimSpace(lines[i+1]))
		}
	}
	return strings.Join(keep, " | ")
}

func c02Effective(opts ...jsonv2.Options) (dup, bad bool) {
	j := jsonv2.JoinOptions(opts...)
	dup, _ = jsonv2.GetOption(j, jsontext.AllowDuplicateNames)
	bad, _ = jsonv2.GetOption(j, jsontext.AllowInvalidUTF8)
	return
}

func (cs *c02Case) begin() {
	*cs.tr = Trace{}
	for _, b := range cs.behs {
		b.reset()
	}
}

// runAll calls every entry point.
func (cs *c02Case) runAll(r *rand.Rand) (runs []c02Run) {
	dup, bad := c02Effective(cs.opts...)
	cs.effDup = dup
	do := func(ep string, want, wantLen int, d, b bool, f func() ([]byte, error)) {
		cs.begin()
		run := c02Run{ep: ep, want: want, wantLen: wantLen}
		run.pan = guard(func() {
			defer func() {
				if r := recover(); r != nil {
					if _, mf := r.(machineryFailure); !mf {
						run.stack = c02Stack()
					}
					panic(r)
				}
			}()
			run.out, run.err = f()
		})
		run.tr = *cs.tr
		run.dup, run.bad = d || run.tr.RelaxDup, b || run.tr.RelaxUTF8
		runs = append(runs, run)
	}
	do("Marshal", 1, -1, dup, bad, func() ([]byte, error) { return jsonv2.Marshal(cs.in, cs.opts...) })
	do("MarshalWrite/bytes.Buffer", 1, -1, dup, bad, func() ([]byte, error) {
		var buf bytes.Buffer
		err := jsonv2.MarshalWrite(&buf, cs.in, cs.opts...)
		return buf.Bytes(), err
	})
	do("MarshalWrite/writer", 1, -1, dup, bad, func() ([]byte, error) {
		var w c02Writer
		err := jsonv2.MarshalWrite(&w, cs.in, cs.opts...)
		return w.b, err
	})
	do("MarshalEncode/fresh", 1, -1, dup, bad, func() ([]byte, error) {
		var buf bytes.Buffer
		enc := jsontext.NewEncoder(&buf, cs.opts...)
		err := jsonv2.MarshalEncode(enc, cs.in)
		return buf.Bytes(), err
	})
	do("MarshalEncode/fresh-callopts", 1, -1, dup, bad, func() ([]byte, error) {
		var w c02Writer
		enc := jsontext.NewEncoder(&w)
		err := jsonv2.MarshalEncode(enc, cs.in, cs.opts...)
		return w.b, err
	})
	// An Encoder positioned inside a container; the options are split between the Encoder and the call.
	cut := 0
	if len(cs.opts) > 0 {
		cut = r.IntN(len(cs.opts) + 1)
	}
	encOpts, callOpts := cs.opts[:cut], cs.opts[cut:]
	d1, b1 := c02Effective(encOpts...)
	pos := r.IntN(5)
	k := r.IntN(3)
	posName := []string{"in-array", "object-value", "object-name", "after-top-level-value", "nested-2"}[pos]
	want, wantLen := 1, -1
	switch pos {
	case 0:
		wantLen = k + 1
	case 1, 2:
		wantLen = 2
	case 3:
		want = 2
	}
	defer func() {
		last := &runs[len(runs)-1]
		last.encDup, last.callDup = d1, dup
	}()
	do("MarshalEncode/"+posName, want, wantLen, dup || d1, bad || b1, func() ([]byte, error) {
		var w c02Writer
		enc := jsontext.NewEncoder(&w, encOpts...)
		var pre, post []jsontext.Token
		switch pos {
		case 0:
			pre = append(pre, jsontext.BeginArray)
			for i := 0; i < k; i++ {
				pre = append(pre, jsontext.Int(int64(i)))
			}
			post = append(post, jsontext.EndArray)
		case 1:
			pre = append(pre, jsontext.BeginObject, jsontext.String("p0"), jsontext.Null, jsontext.String("p1"))
			post = append(post, jsontext.EndObject)
		case 2:
			pre = append(pre, jsontext.BeginObject, jsontext.String("p0"), jsontext.Null)
			post = append(post, jsontext.Null, jsontext.EndObject)
		case 3:
			pre = append(pre, jsontext.String("first"))
		case 4:
			pre = append(pre, jsontext.BeginArray, jsontext.BeginObject, jsontext.String("p"), jsontext.BeginArray)
			post = append(post, jsontext.EndArray, jsontext.EndObject, jsontext.EndArray)
		}
		for _, t := range pre {
			if err := enc.WriteToken(t); err != nil {
				fail("C02: cannot position the encoder: %v", err)
			}
		}
		if err := jsonv2.MarshalEncode(enc, cs.in, callOpts...); err != nil {
			return w.b, err
		}
		for _, t := range post {
			if err := enc.WriteToken(t); err != nil {
				// MarshalEncode said nil but the encoder cannot be closed as if one value had been written
				return append(w.b, " <<cannot-finish: "+err.Error()+">>"...), nil
			}
		}
		if enc.StackDepth() != 0 {
			return append(w.b, " <<depth-not-restored>>"...), nil
		}
		return w.b, nil
	})
	return runs
}

// ================================================================================================
// 4. The property run
// ================================================================================================

type c02Pending struct {
	cs   *c02Case
	run  c02Run
	desc map[string]any
}

func c02Describe(cs *c02Case, run *c02Run) map[string]any {
	var bs []string
	for _, b := range cs.behs {
		bs = append(bs, b.desc())
	}
	d := map[string]any{
		"case": cs.idx, "entry_point": run.ep, "type": trunc(cs.typ.String(), 1500), "value": trunc(fmt.Sprintf("%+v", cs.in), 600),
		"options": cs.optNames, "behaviours": bs, "output": trunc(string(run.out), 400), "output_hex": trunc(hx(run.out), 1200),
		"allow_dup": run.dup, "allow_invalid_utf8": run.bad, "escaped": run.tr.Escaped,
	}
	if run.err != nil {
		d["err"] = trunc(run.err.Error(), 300)
	}
	if run.stack != "" {
		d["stack"] = run.stack
	}
	return d
}

func c02MakeCase(seed, idx uint64, group uint64, hits map[string]int64) *c02Case {
	// the type is shared by a group of consecutive cases (reflect never frees a type it has built)
	tr := rand.New(rand.NewPCG(seed^0xC02, idx/group))
	tg := &c02Gen{r: tr, hits: map[string]int64{}}
	typ := tg.genType(3)
	g := &c02Gen{r: rand.New(rand.NewPCG(seed^0xC02C02, idx)), hits: hits, adv: 1}
	switch x := g.n(20); {
	case x < 9:
		g.adv = 0.3
	case x < 13:
		g.adv = 0.1
	}
	hits[fmt.Sprintf("adversity:%.1f", g.adv)]++
	if idx%group == 0 {
		for k, v := range tg.hits {
			hits[k] += v
		}
		hits["types-built"]++
	}
	cs := &c02Case{idx: idx, typ: typ, tr: &Trace{}, kinds: map[string]bool{}}
	g.cs = cs
	g.pos = "top-level"
	v := g.genValue(typ, 3)
	switch g.n(12) {
	case 0: // behind a pointer at top level
		p := reflect.New(typ)
		p.Elem().Set(v)
		cs.in = p.Interface()
		g.hit("top:pointer")
	case 1: // a nil pointer / nil interface at top level
		if g.p(0.5) {
			cs.in = reflect.Zero(reflect.PointerTo(typ)).Interface()
		} else {
			cs.in = nil
		}
		g.hit("top:nil")
	default:
		cs.in = v.Interface()
	}
	g.genOpts()
	return cs
}

func runC02(c *Ctx) {
	if pf := os.Getenv("C02_PROF"); pf != "" {
		f, _ := os.Create(pf)
		pprof.StartCPUProfile(f)
		defer pprof.StopCPUProfile()
	}
	total := uint64(c.N(60_000, 2_000_000))
	group := uint64(c.N(8, 32))
	workers := min(runtime.GOMAXPROCS(0), c.N(4, 16))
	var only []uint64
	if c.ReplayPath != "" {
		var tier string
		only, tier = c02ReplayCases(c.ReplayPath)
		if tier == "thorough" { // the type of a case is shared by its group, whose size depends on the tier
			group = 32
		} else {
			group = 8
		}
		workers = 1
	}
	var wg sync.WaitGroup
	var mu sync.Mutex
	allHits := map[string]int64{}
	oracleState := "unknown"
	block := (total + uint64(workers) - 1) / uint64(workers)
	for w := 0; w < workers; w++ {
		lo, hi := uint64(w)*block, min(uint64(w+1)*block, total)
		wg.Add(1)
		go func(w int, lo, hi uint64) {
			defer wg.Done()
			hits := map[string]int64{}
			or := c.NewOracle()
			var pend []c02Pending
			r := c.SubRng(uint64(w))
			flush := func() {
				st := c02AskOracle(c, or, pend, hits)
				if st != "" {
					mu.Lock()
					oracleState = st
					mu.Unlock()
				}
				pend = pend[:0]
			}
			one := func(idx uint64) {
				cs := c02MakeCase(c.Seed, idx, group, hits)
				runs := cs.runAll(rand.New(rand.NewPCG(c.Seed^0xE9, idx)))
				c02Judge(c, cs, runs, hits, &pend)
				if len(pend) >= 512 {
					flush()
				}
			}
			if only != nil {
				for _, idx := range only {
					one(idx)
				}
			} else {
				for idx := lo; idx < hi; idx++ {
					one(idx)
				}
			}
			flush()
			_ = r
			mu.Lock()
			for k, v := range hits {
				allHits[k] += v
			}
			mu.Unlock()
		}(w, lo, hi)
	}
	wg.Wait()
	keys := make([]string, 0, len(allHits))
	for k := range allHits {
		keys = append(keys, k)
	}
	sort.Strings(keys)
	for _, k := range keys {
		c.HitN(k, allHits[k])
	}
	c.Note("oracle `wire valid`: %s", oracleState)
	c.Note("programs=%d type-group=%d workers=%d; every program is run through 6 entry points", total, group, workers)
	c02SelfTest(c)
	c02LegitPrograms(c)
	c02KnownRepros(c)
}

// c02RecoverPrograms: user code panics inside a marshal call, somebody recovers and goes on with the same Encoder.
// Both programs worked before the floor existed and must keep working (the floor is restored with defer, d44ddf8).
func c02RecoverPrograms(c *Ctx) {
	check := func(name, want string, out []byte, errs ...error) {
		c.Hit("legit-programs")
		for _, err := range errs {
			if err != nil {
				c.Violate("legit-program-rejected", "legit/"+name, out, map[string]any{"want": want, "got": string(out), "err": err.Error()})
				return
			}
		}
		if string(out) != want {
			c.Violate("legit-program-rejected", "legit/"+name, out, map[string]any{"want": want, "got": string(out)})
		}
	}
	// 1. the application owns the Encoder and recovers from the panic of a MarshalJSONTo
	if p := guard(func() {
		var w c02Writer
		enc := jsontext.NewEncoder(&w)
		e0 := enc.WriteToken(jsontext.BeginArray)
		func() {
			defer func() { recover() }()
			jsonv2.MarshalEncode(enc, jsonv2.MarshalerTo(c02Panicker{}))
		}()
		e1 := enc.WriteToken(jsontext.Int(1))
		e2 := enc.WriteToken(jsontext.EndArray)
		check("recover/application-owned-encoder", "[1]\n", w.b, e0, e1, e2)
	}); p != nil {
		c.Panic("legit/recover/application-owned-encoder", nil, p, nil)
	}
	// 2. a MarshalJSONTo recovers from the panic of a nested marshal call and closes the array IT opened
	if p := guard(func() {
		out, err := jsonv2.Marshal([]c02Recoverer{{c02Panicker{}}})
		check("recover/inside-method", "[[null]]", out, err)
	}); p != nil {
		c.Panic("legit/recover/inside-method", nil, p, nil)
	}
}

type c02Recoverer struct{ inner any }

func (q c02Recoverer) MarshalJSONTo(e *jsontext.Encoder) error {
	if err := e.WriteToken(jsontext.BeginArray); err != nil {
		return err
	}
	func() {
		defer func() { recover() }()
		jsonv2.MarshalEncode(e, q.inner)
	}()
	if err := e.WriteToken(jsontext.Null); err != nil {
		return err
	}
	return e.WriteToken(jsontext.EndArray)
}

type c02Panicker struct{}

func (c02Panicker) MarshalJSONTo(*jsontext.Encoder) error { panic("c02: user bug") }

// c02KnownRepros runs the minimal programs of the two panics that are still open in /repo, so that every run
// (whatever the seed) reports them under their own kinds — and notices when they stop reproducing.
func c02KnownRepros(c *Ctx) {
	tr := &Trace{}
	if p := guard(func() { jsonv2.Marshal([]UA{{&Beh{NilOut: true, Bytes: []byte("x"), tr: tr}}}) }); p != nil {
		c.Violate("panic-appendtext-contract", "repro", nil, map[string]any{"panic": fmt.Sprint(p), "program": "json.Marshal([]UA{..}) with AppendText returning nil"})
	} else {
		c.Hit("known-finding-no-longer-reproduces:panic-appendtext-contract")
	}
	if p := guard(func() {
		var w c02Writer
		enc := jsontext.NewEncoder(&w, jsontext.AllowDuplicateNames(true))
		enc.WriteToken(jsontext.BeginObject)
		enc.WriteToken(jsontext.String("p"))
		jsonv2.MarshalEncode(enc, UIntTo(3), jsontext.AllowDuplicateNames(false)) // writes a value, a NAME, a value
	}); p != nil {
		c.Violate("panic-namespace-after-option-change", "repro", nil, map[string]any{"panic": fmt.Sprint(p),
			"program": "Encoder(AllowDuplicateNames(true)) `{\"p\":` then MarshalEncode(enc, v, AllowDuplicateNames(false)) where v.MarshalJSONTo writes value, name, value"})
	} else {
		c.Hit("known-finding-no-longer-reproduces:panic-namespace-after-option-change")
	}
}

// c02LegitPrograms: well-behaved user code that opens and closes its OWN containers (also through nested
// MarshalEncode calls and marshal functions) must keep working — guards against an over-eager policing of user code.
func c02LegitPrograms(c *Ctx) {
	tr := &Trace{}
	one := func(shape int) *Beh { return &Beh{Script: []Op{{Kind: opOneValue, Arg: shape}}, tr: tr} }
	nested := &Beh{tr: tr, Script: []Op{{Kind: opTok, Arg: tokBeginArray}, {Kind: opNested, Arg: 2}, {Kind: opNested, Arg: 3}, {Kind: opOneValue, Arg: 4},
		{Kind: opTok, Arg: tokEndArray}}}
	fn := jsonv2.WithMarshalers(jsonv2.MarshalToFunc(func(e *jsontext.Encoder, _ bool) error { return one(3).run(e) }))
	viaFunc := &Beh{tr: tr, Script: []Op{{Kind: opTok, Arg: tokBeginObject}, {Kind: opName}}}
	type tc struct {
		name string
		in   any
		opts []jsonv2.Options
		want string
	}
	cases := []tc{
		{"top-level", UTo{one(4)}, nil, `{"k":{"k":false},"l":0.25}`},
		{"slice", []UTo{{one(3)}, {one(2)}, {one(0)}}, nil, `[[null,[]],{},42]`},
		{"map-value", map[string]UToP{"a": {one(3)}}, nil, `{"a":[null,[]]}`},
		{"map-key", map[UTo]int{{one(1)}: 1}, nil, `{"v1":1}`},
		{"struct-field", struct {
			A UTo `json:"a,omitempty"`
			B UTo
		}{UTo{one(2)}, UTo{one(3)}}, nil, `{"B":[null,[]]}`},
		{"nested-marshal", []UTo{{nested}}, nil, `[[{"a":1},[null,true,"x"],{"k":{"k":false},"l":0.25}]]`},
		{"func-in-container", []bool{true, false}, []jsonv2.Options{fn}, `[[null,[]],[null,[]]]`},
		{"func-inside-method", UTo{&Beh{tr: tr, Script: append(viaFunc.Script, Op{Kind: opNested, Arg: 3}, Op{Kind: opTok, Arg: tokEndObject})}}, []jsonv2.Options{fn},
			`{"u1":[null,[null,[]],"x"]}`},
	}
	for _, t := range cases {
		*tr = Trace{}
		var out []byte
		var err error
		if p := guard(func() { out, err = jsonv2.Marshal(t.in, t.opts...) }); p != nil {
			c.Panic("legit/"+t.name, nil, p, nil)
			continue
		}
		c.Hit("legit-programs")
		if err != nil || string(out) != t.want {
			c.Violate("legit-program-rejected", "legit/"+t.name, out, map[string]any{"want": t.want, "got": string(out), "err": fmt.Sprint(err)})
		}
	}
	c02RecoverPrograms(c)
}

// c02Judge evaluates the predicate for the runs of one case.
func c02Judge(c *Ctx, cs *c02Case, runs []c02Run, hits map[string]int64, pend *[]c02Pending) {
	nontrivial := cs.userCode || len(cs.opts) > 0 || cs.kinds["struct"] || cs.kinds["map"] || cs.kinds["jsontext.Value"]
	var sig strings.Builder
	sig.WriteString(cs.typ.String())
	sig.WriteString(strings.Join(cs.optNames, ","))
	for i := range runs {
		run := &runs[i]
		hits["entry:"+run.ep]++
		if run.tr.Escaped {
			hits["user-code:popped-below-entry-depth"]++
		}
		if run.tr.OpErrs > 0 {
			hits["user-code:encoder-error-seen"]++
		}
		if run.pan != nil {
			if run.tr.Dropped { // AppendText broke its interface contract; reported under its own kind
				d := c02Describe(cs, run)
				d["panic"] = fmt.Sprint(run.pan)
				c.Violate("panic-appendtext-contract", run.ep, run.out, d)
				hits["result:panic-appendtext-contract"]++
				continue
			}
			if strings.Contains(run.stack, "objectNamespaceStack") && run.tr.DupDesync {
				// same root cause (D9), routes 2 and 3: user code made a nested MarshalEncode whose AllowDuplicateNames differs from
				// the enclosing coder's while an object was open around it, or which returned (failed) leaving objects open that
				// it had begun; a later name / `}` then meets a namespace stack that is out of step with the token stack
				d := c02Describe(cs, run)
				d["panic"] = fmt.Sprint(run.pan)
				c.Violate("panic-namespace-after-option-change", run.ep, run.out, d)
				hits["result:panic-namespace-after-option-change"]++
				continue
			}
			if run.encDup && !run.callDup && strings.Contains(run.stack, "objectNamespaceStack.Last") {
				// the enclosing object was opened while the Encoder allowed duplicate names (no namespace pushed); the call
				// switched AllowDuplicateNames off at a value position (permitted) and user code then wrote a NAME into it
				d := c02Describe(cs, run)
				d["panic"] = fmt.Sprint(run.pan)
				c.Violate("panic-namespace-after-option-change", run.ep, run.out, d)
				hits["result:panic-namespace-after-option-change"]++
				continue
			}
			c.Panic(run.ep, run.out, run.pan, c02Describe(cs, run))
			hits["result:panic"]++
			continue
		}
		if run.err != nil {
			hits["result:error"]++
			fmt.Fprintf(&sig, "|E")
			continue
		}
		hits["result:ok"]++
		v := c02Validate(run.out, run.bad, run.dup)
		fmt.Fprintf(&sig, "|%x", run.out[:min(len(run.out), 64)])
		if v.BadUTF8 {
			hits["output:invalid-utf8-under-AllowInvalidUTF8"]++
		}
		if run.dup && !c02Validate(run.out, run.bad, false).OK {
			hits["output:duplicate-names-under-AllowDuplicateNames"]++
		}
		switch {
		case len(run.out) > 65536:
			hits["output-size:>64K"]++
		case len(run.out) > 4096:
			hits["output-size:>4K"]++
		case len(run.out) > 64:
			hits["output-size:>64"]++
		default:
			hits["output-size:<=64"]++
		}
		bad := ""
		switch {
		case !v.OK:
			bad = "not valid JSON: " + v.Reason + " at offset " + strconv.Itoa(v.Off)
		case v.NVals != run.want:
			bad = fmt.Sprintf("%d top-level values, want %d", v.NVals, run.want)
		case run.wantLen >= 0 && v.Children != run.wantLen:
			bad = fmt.Sprintf("enclosing container has %d children, want %d", v.Children, run.wantLen)
		}
		if bad != "" {
			kind := "invalid-output"
			d := c02Describe(cs, run)
			d["why"] = bad
			c.Violate(kind, run.ep, run.out, d)
			hits["violation:"+kind]++
			continue
		}
		// second judge: the library's own validator, on single-value outputs
		if run.want == 1 {
			lib := jsontext.Value(run.out).IsValid(jsontext.AllowDuplicateNames(run.dup), jsontext.AllowInvalidUTF8(run.bad))
			if !lib {
				d := c02Describe(cs, run)
				d["why"] = "jsontext.Value.IsValid rejects an output that the independent validator accepts"
				c.Violate("corr-judges-disagree", run.ep, run.out, d)
			}
		}
		// third judge: the oracle (asked in batches)
		if len(run.out) <= 1<<16 {
			*pend = append(*pend, c02Pending{cs: cs, run: *run})
		}
	}
	// the entry points agree (only when the program is deterministic)
	det, _ := jsonv2.GetOption(jsonv2.JoinOptions(cs.opts...), jsonv2.Deterministic)
	anyDup, _ := c02Effective(cs.opts...) // equal names are ordered arbitrarily even under Deterministic
	if !cs.multiMap || (det && !anyDup && !cs.counters && !cs.userCode) {
		base := runs[0]
		for _, run := range runs[1:4] { // fresh-callopts legitimately refuses whitespace options on the call
			if run.pan != nil || base.pan != nil {
				continue
			}
			out := run.out
			if strings.HasPrefix(run.ep, "MarshalEncode") {
				out = bytes.TrimSuffix(out, []byte("\n"))
			}
			if (run.err == nil) != (base.err == nil) || (run.err == nil && !bytes.Equal(out, base.out)) {
				d := c02Describe(cs, &run)
				d["marshal_output"] = trunc(string(base.out), 400)
				if base.err != nil {
					d["marshal_err"] = base.err.Error()
				}
				c.Violate("entry-points-disagree", run.ep, run.out, d)
			}
		}
		hits["agreement-checked"]++
	}
	c.Case(sig.String(), nontrivial)
	if cs.idx%4001 == 7 && runs[0].err == nil {
		c.Sample(map[string]any{"type": trunc(cs.typ.String(), 200), "options": cs.optNames, "output": trunc(string(runs[0].out), 200)})
	}
}

// c02AskOracle sends the nil-error outputs to the oracle's proven validator.
func c02AskOracle(c *Ctx, or *Oracle, pend []c02Pending, hits map[string]int64) string {
	if or == nil {
		return "no oracle executable"
	}
	if len(pend) == 0 {
		return ""
	}
	b2s := func(b bool) string {
		if b {
			return "1"
		}
		return "0"
	}
	lines := make([]string, len(pend))
	for i, p := range pend {
		lines[i] = joinWords("wire", "valid", b2s(p.run.bad), b2s(p.run.dup), hx(p.run.out))
	}
	ans := or.Ask(lines)
	state := ""
	for i, a := range ans {
		p := pend[i]
		switch {
		case strings.HasPrefix(a, "ERR"):
			hits["oracle:unavailable"]++
			state = "not implemented yet (" + a + "): Go validator + jsontext.Value.IsValid only"
		case a == "ok":
			hits["oracle:ok"]++
			state = "available"
		case strings.HasPrefix(a, "E"):
			if p.run.want != 1 { // the op judges exactly one value; streams of 2 are judged by the Go validator only
				hits["oracle:skipped-stream"]++
				continue
			}
			d := c02Describe(p.cs, &p.run)
			d["why"] = "oracle `wire valid` rejects an output that the independent Go validator accepts: " + a
			c.Violate("corr-judges-disagree", p.run.ep, p.run.out, d)
		default:
			fail("C02: unexpected oracle answer %q", a)
		}
	}
	return state
}

// c02SelfTest checks the independent validator against encoding/json (stdlib v1) and a table, so that a
// bug in the judge cannot silently make the property vacuous.
func c02SelfTest(c *Ctx) {
	type tc struct {
		s        string
		bad, dup bool
		ok       bool
		n        int
	}
	tab := []tc{
		{`null`, false, false, true, 1}, {` [1, 2.5e-3 ,"x"] `, false, false, true, 1}, {`1 2`, false, false, true, 2}, {``, false, false, true, 0},
		{`{"a":1,"a":2}`, false, false, false, 0}, {`{"a":1,"a":2}`, false, true, true, 1}, {`{"a":1,"a":2}`, false, false, false, 0},
		{`[{"a":{"b":1,"b":2}}]`, false, false, false, 0}, {"\"\xff\"", false, false, false, 0}, {"\"\xff\"", true, false, true, 1},
		{`"\ud800"`, false, false, false, 0}, {`"\ud800"`, true, false, true, 1}, {`"😀"`, false, false, true, 1}, {"{\"\xff\":1,\"\xfe\":2}", true, false, false, 0},
		{`01`, false, false, false, 0}, {`-`, false, false, false, 0}, {`1.`, false, false, false, 0}, {`1e`, false, false, false, 0}, {`[1,]`, false, false, false, 0},
		{`{"a"}`, false, false, false, 0}, {"\"\x1f\"", false, false, false, 0}, {`"\x"`, false, false, false, 0}, {`tru`, false, false, false, 0}, {`[1][2]`, false, false, false, 0}, {"[1]\n[2] ", false, false, true, 2},
		{"\"\xed\xa0\x80\"", false, false, false, 0}, {"\"\xc0\x80\"", false, false, false, 0}, {"\"\xf4\x90\x80\x80\"", false, false, false, 0}, {"\"\xf0\x9f\x98\x80\"", false, false, true, 1},
	}
	for _, t := range tab {
		v := c02Validate([]byte(t.s), t.bad, t.dup)
		if v.OK != t.ok || (t.ok && v.NVals != t.n) {
			fail("C02 validator self-test: %q bad=%v dup=%v → %+v", t.s, t.bad, t.dup, v)
		}
	}
	// differential against the toolchain's encoding/json.Valid on the corpus (syntax only: allow dup, strings with
	// ill-formed UTF-8 are accepted by encoding/json, so compare with allowBad=true and skip surrogate-escape cases)
	n := 0
	for _, s := range append(append([]string{}, c02JSONGood...), c02JSONBad...) {
		v := c02Validate([]byte(s), true, true)
		mine := v.OK && v.NVals == 1
		if std := json.Valid([]byte(s)); std != mine {
			fail("C02 validator self-test: %q: encoding/json.Valid=%v, mine=%v (%s)", s, std, mine, v.Reason)
		}
		n++
	}
	c.HitN("validator-selftest-cases", int64(n+len(tab)))
}

func c02ReplayCases(path string) ([]uint64, string) {
	b, err := os.ReadFile(path)
	if err != nil {
		fail("replay: %v", err)
	}
	var f struct {
		Tier      string `json:"tier"`
		Violation struct {
			Detail map[string]any `json:"detail"`
		} `json:"violation"`
	}
	if err := json.Unmarshal(b, &f); err != nil {
		fail("replay: %v", err)
	}
	x, ok := f.Violation.Detail["case"].(float64)
	if !ok {
		fail("replay: no case index in %s", path)
	}
	return []uint64{uint64(x)}, f.Tier
}
