package main

// C04L3 — C04 (Marshal ∘ Unmarshal round trip) at the TREE level (layer L3).
//
// For every value v of a type of the modelled universe (bool, int8..64, uint8..64, float64, string,
// slices, arrays, map[string]T, pointers incl. nested, structs with plain `json:"name"` fields, `any`
// holding nil/bool/float64/string/[]any/map[string]any): json.Unmarshal accepts json.Marshal(v), the
// decoded value equals v up to nil≈empty for slices and maps (maps as finite maps), and marshaling the
// decoded value reproduces the same bytes.
//
// EXCLUDED by the Lean predicate `safe` (Model/Marshal.lean): a pointer or interface that holds a value
// which marshals as `null` (**T → nil *T, *any → nil interface, and — only under FormatNilSliceAsNull /
// FormatNilMapAsNull — pointers/interfaces holding nil slices/maps).  There the holder comes back as a
// nil pointer / nil interface: the value is not restored, the re-marshal fixpoint still holds.  These
// points are generated on purpose; what the real code does there is recorded (Hit "unsafe/<shape>",
// one Note with the smallest example per shape) and checked against the predicted collapse.
//
// Marshal options of the real code: Deterministic(true) always, FormatNilSliceAsNull(true) if bit 0 of
// the option word `mo`, FormatNilMapAsNull(true) if bit 1; Unmarshal under the default options.
//
// Checks (every call into the library goes through guard; a panic is reported with c.Panic):
//
//	(1) corr-mar     real json.Marshal vs `arsh mar`: same tree, token for token (number literals
//	                 included), or real error ↔ model error (invalid UTF-8 ↔ Minvalidutf8);
//	    corr-typed   `arsh typed` = 1 exactly for the generated values without invalid UTF-8;
//	    corr-safe    `arsh safe` vs the independent Go walk l3Safe;
//	(2) corr-rt      `arsh rt` = <tree> ; <value'> ; <tree'> vs the real Marshal → Unmarshal → Marshal;
//	(3) on the implementation alone:
//	    mar-accept   Marshal succeeds iff the value holds no invalid UTF-8 string/key;
//	    rt-accept    Unmarshal(Marshal(v)) succeeds;
//	    rt-fixpoint  Marshal(Unmarshal(Marshal(v))) == Marshal(v), byte for byte;
//	    rt-value     safe v ⇒ decoded ≈ v (EqualUpToNilEmpty);
//	    rt-collapse  not safe ⇒ decoded ≈ v with every unsafe pointer/interface replaced by nil;
//	(4) mar-dupfree  the marshaled text parses to a tree without duplicate member names.

import (
	"bytes"
	"errors"
	"fmt"
	"math"
	"math/rand/v2"
	"reflect"
	"sort"
	"strconv"
	"strings"
	"sync"
	"unicode/utf8"

	json "github.com/go-json-experiment/json"
	"github.com/go-json-experiment/json/internal/jsonwire"
)

// runC04L3 is called as an extra phase of the C04 check (see runC04).

const l3Workers = 16
const l3Batch = 250

var l3MarOpts = func() (o [4][]json.Options) {
	for mo := 0; mo < 4; mo++ {
		o[mo] = []json.Options{json.Deterministic(true)}
		if mo&1 != 0 {
			o[mo] = append(o[mo], json.FormatNilSliceAsNull(true))
		}
		if mo&2 != 0 {
			o[mo] = append(o[mo], json.FormatNilMapAsNull(true))
		}
	}
	return
}()

// l3MarErrClass classifies a Marshal error without looking at message text.
func l3MarErrClass(err error) string {
	if errors.Is(err, jsonwire.ErrInvalidUTF8) {
		return "invalidutf8"
	}
	return "other"
}

// ---------------------------------------------------------------------------------------------
// independent Go-side predicates on reflect values

// l3PrintsNull: the value marshals as `null` under option word mo.
func l3PrintsNull(v reflect.Value, mo int) bool {
	switch v.Kind() {
	case reflect.Pointer, reflect.Interface:
		return v.IsNil() || l3PrintsNull(v.Elem(), mo)
	case reflect.Slice:
		return v.IsNil() && mo&1 != 0
	case reflect.Map:
		return v.IsNil() && mo&2 != 0
	}
	return false
}

// l3Safe: no pointer and no interface in v holds something that marshals as `null`.
func l3Safe(v reflect.Value, mo int) bool {
	switch v.Kind() {
	case reflect.Pointer, reflect.Interface:
		if v.IsNil() {
			return true
		}
		return !l3PrintsNull(v.Elem(), mo) && l3Safe(v.Elem(), mo)
	case reflect.Slice, reflect.Array:
		for i := 0; i < v.Len(); i++ {
			if !l3Safe(v.Index(i), mo) {
				return false
			}
		}
	case reflect.Map:
		it := v.MapRange()
		for it.Next() {
			if !l3Safe(it.Value(), mo) {
				return false
			}
		}
	case reflect.Struct:
		for i := 0; i < v.NumField(); i++ {
			if !l3Safe(v.Field(i), mo) {
				return false
			}
		}
	}
	return true
}

// l3Collapse returns a deep copy of v in which every pointer/interface whose content marshals as
// `null` is replaced by a nil pointer / nil interface (the identity, up to sharing, on safe values).
func l3Collapse(v reflect.Value, mo int) reflect.Value {
	out := reflect.New(v.Type()).Elem()
	switch v.Kind() {
	case reflect.Slice:
		if !v.IsNil() {
			s := reflect.MakeSlice(v.Type(), v.Len(), v.Len())
			for i := 0; i < v.Len(); i++ {
				s.Index(i).Set(l3Collapse(v.Index(i), mo))
			}
			out.Set(s)
		}
	case reflect.Array:
		for i := 0; i < v.Len(); i++ {
			out.Index(i).Set(l3Collapse(v.Index(i), mo))
		}
	case reflect.Map:
		if !v.IsNil() {
			m := reflect.MakeMapWithSize(v.Type(), v.Len())
			it := v.MapRange()
			for it.Next() {
				m.SetMapIndex(it.Key(), l3Collapse(it.Value(), mo))
			}
			out.Set(m)
		}
	case reflect.Pointer:
		if !v.IsNil() && !l3PrintsNull(v.Elem(), mo) {
			p := reflect.New(v.Type().Elem())
			p.Elem().Set(l3Collapse(v.Elem(), mo))
			out.Set(p)
		}
	case reflect.Interface:
		if !v.IsNil() && !l3PrintsNull(v.Elem(), mo) {
			out.Set(l3Collapse(v.Elem(), mo))
		}
	case reflect.Struct:
		for i := 0; i < v.NumField(); i++ {
			out.Field(i).Set(l3Collapse(v.Field(i), mo))
		}
	default:
		out.Set(v)
	}
	return out
}

// EqualUpToNilEmpty is the value relation of the round trip: equality except that a nil and an empty
// slice (map) are identified; maps are compared as sets of entries, pointers by content, floats by bit
// pattern (so -0 ≠ 0), interface values by exact dynamic type.
func EqualUpToNilEmpty(a, b reflect.Value) bool { return l3Diff(a, b, "$") == "" }

// l3Diff returns "" if a ≈ b, else the path and nature of the first difference.
func l3Diff(a, b reflect.Value, path string) string {
	if a.Type() != b.Type() {
		return fmt.Sprintf("%s: type %v vs %v", path, a.Type(), b.Type())
	}
	switch a.Kind() {
	case reflect.Bool:
		if a.Bool() != b.Bool() {
			return fmt.Sprintf("%s: %v vs %v", path, a.Bool(), b.Bool())
		}
	case reflect.Int8, reflect.Int16, reflect.Int32, reflect.Int64, reflect.Int:
		if a.Int() != b.Int() {
			return fmt.Sprintf("%s: %d vs %d", path, a.Int(), b.Int())
		}
	case reflect.Uint8, reflect.Uint16, reflect.Uint32, reflect.Uint64, reflect.Uint:
		if a.Uint() != b.Uint() {
			return fmt.Sprintf("%s: %d vs %d", path, a.Uint(), b.Uint())
		}
	case reflect.Float64, reflect.Float32:
		if math.Float64bits(a.Float()) != math.Float64bits(b.Float()) {
			return fmt.Sprintf("%s: float bits %016x vs %016x", path, math.Float64bits(a.Float()), math.Float64bits(b.Float()))
		}
	case reflect.String:
		if a.String() != b.String() {
			return fmt.Sprintf("%s: %q vs %q", path, a.String(), b.String())
		}
	case reflect.Slice, reflect.Array:
		// nil ≈ empty: only the lengths and the elements count
		if a.Len() != b.Len() {
			return fmt.Sprintf("%s: length %d vs %d", path, a.Len(), b.Len())
		}
		for i := 0; i < a.Len(); i++ {
			if d := l3Diff(a.Index(i), b.Index(i), path+"["+strconv.Itoa(i)+"]"); d != "" {
				return d
			}
		}
	case reflect.Map:
		if a.Len() != b.Len() {
			return fmt.Sprintf("%s: %d vs %d entries", path, a.Len(), b.Len())
		}
		it := a.MapRange()
		for it.Next() {
			bv := b.MapIndex(it.Key())
			if !bv.IsValid() {
				return fmt.Sprintf("%s: key %q lost", path, it.Key().String())
			}
			if d := l3Diff(it.Value(), bv, path+"["+strconv.Quote(it.Key().String())+"]"); d != "" {
				return d
			}
		}
	case reflect.Pointer:
		if a.IsNil() != b.IsNil() {
			return fmt.Sprintf("%s: pointer nil=%v vs nil=%v", path, a.IsNil(), b.IsNil())
		}
		if !a.IsNil() {
			return l3Diff(a.Elem(), b.Elem(), path+"*")
		}
	case reflect.Interface:
		if a.IsNil() != b.IsNil() {
			return fmt.Sprintf("%s: interface nil=%v vs nil=%v", path, a.IsNil(), b.IsNil())
		}
		if !a.IsNil() {
			return l3Diff(a.Elem(), b.Elem(), path+".(…)")
		}
	case reflect.Struct:
		for i := 0; i < a.NumField(); i++ {
			if d := l3Diff(a.Field(i), b.Field(i), path+"."+a.Type().Field(i).Name); d != "" {
				return d
			}
		}
	default:
		fail("EqualUpToNilEmpty: unsupported kind %v", a.Kind())
	}
	return ""
}

// l3Facts is what one walk over a generated value collects for the checks and the histogram.
type l3Facts struct {
	badStr, badKey                         bool // invalid UTF-8 in a string / in a map key
	nilSlice, emptySlice, nilMap, emptyMap bool
	spareCap                               bool
	ptrDepth                               int             // longest chain of pointers (a nil pointer at the end counts)
	anyDyn                                 map[string]bool // what interfaces hold
	unsafe                                 []string        // shapes of the unsafe holders
}

func l3Describe(e reflect.Value) string {
	switch e.Kind() {
	case reflect.Pointer:
		if e.IsNil() {
			return "->nil-ptr"
		}
		return "->ptr" + l3Describe(e.Elem())
	case reflect.Interface:
		if e.IsNil() {
			return "->nil-iface"
		}
		return "->iface" + l3Describe(e.Elem())
	case reflect.Slice:
		return "->nil-slice[bit0]"
	case reflect.Map:
		return "->nil-map[bit1]"
	}
	return "->?"
}

func (f *l3Facts) walk(v reflect.Value, t *TypeDesc, mo int) {
	switch t.Kind {
	case TKString:
		if !utf8.ValidString(v.String()) {
			f.badStr = true
		}
	case TKSlice:
		switch {
		case v.IsNil():
			f.nilSlice = true
		case v.Len() == 0:
			f.emptySlice = true
		}
		if v.Cap() > v.Len() {
			f.spareCap = true
		}
		for i := 0; i < v.Len(); i++ {
			f.walk(v.Index(i), t.Elem, mo)
		}
	case TKArray:
		for i := 0; i < v.Len(); i++ {
			f.walk(v.Index(i), t.Elem, mo)
		}
	case TKMap:
		switch {
		case v.IsNil():
			f.nilMap = true
		case v.Len() == 0:
			f.emptyMap = true
		}
		it := v.MapRange()
		for it.Next() {
			if !utf8.ValidString(it.Key().String()) {
				f.badKey = true
			}
			f.walk(it.Value(), t.Elem, mo)
		}
	case TKPtr:
		d := 1
		for p := v; !p.IsNil() && p.Elem().Kind() == reflect.Pointer; p = p.Elem() {
			d++
		}
		if d > f.ptrDepth {
			f.ptrDepth = d
		}
		if !v.IsNil() {
			if l3PrintsNull(v.Elem(), mo) {
				f.unsafe = append(f.unsafe, "ptr"+l3Describe(v.Elem()))
			}
			f.walk(v.Elem(), t.Elem, mo)
		}
	case TKStruct:
		for i, fd := range t.Fields {
			f.walk(v.Field(i), fd.Type, mo)
		}
	case TKAny:
		if f.anyDyn == nil {
			f.anyDyn = map[string]bool{}
		}
		if v.IsNil() {
			f.anyDyn["nil"] = true
			return
		}
		e := v.Elem()
		dt := dynTypeDesc(e.Type())
		if dt == nil {
			fail("C04L3: generated an interface holding %v", e.Type())
		}
		name := dt.Kind.String()
		switch dt.Kind {
		case TKSlice, TKMap:
			switch {
			case e.IsNil():
				name = "nil-" + name
			case e.Len() == 0:
				name = "empty-" + name
			}
		}
		f.anyDyn[name] = true
		if l3PrintsNull(e, mo) {
			f.unsafe = append(f.unsafe, "iface"+l3Describe(e))
		}
		f.walk(e, dt, mo)
	}
}

// l3ValueFromWire builds an addressable Go value of type t from the oracle's value tokens
// (the inverse of ValueWire; used by the hand-written corpus).
func l3ValueFromWire(t *TypeDesc, wire string) reflect.Value {
	toks := strings.Fields(wire)
	pos := 0
	w, err := parseWVal(toks, &pos)
	if err != nil || pos != len(toks) {
		fail("l3ValueFromWire(%q): %v", wire, err)
	}
	v := reflect.New(t.GoType()).Elem()
	l3Build(v, t, w)
	if got := ValueWire(v, t); got != wire {
		fail("l3ValueFromWire: built %q from %q", got, wire)
	}
	return v
}

func l3Build(v reflect.Value, t *TypeDesc, w *wval) {
	want := map[TypeKind]byte{TKBool: 'b', TKInt: 'i', TKUint: 'u', TKFloat: 'F', TKString: 's', TKSlice: 'L',
		TKArray: 'R', TKMap: 'M', TKPtr: 'P', TKStruct: 'T', TKAny: 'I'}[t.Kind]
	if w.tag != want {
		fail("l3Build: %s value for type %s", string(w.tag), t.Wire())
	}
	switch t.Kind {
	case TKBool:
		v.SetBool(w.b)
	case TKInt:
		n, err := strconv.ParseInt(w.num, 10, t.Bits)
		if err != nil {
			fail("l3Build: %v", err)
		}
		v.SetInt(n)
	case TKUint:
		n, err := strconv.ParseUint(w.num, 10, t.Bits)
		if err != nil {
			fail("l3Build: %v", err)
		}
		v.SetUint(n)
	case TKFloat:
		x, err := strconv.ParseFloat(string(w.bytes), 64)
		if err != nil {
			fail("l3Build: %v", err)
		}
		v.SetFloat(x)
	case TKString:
		v.SetString(string(w.bytes))
	case TKSlice:
		if !w.isNil {
			s := reflect.MakeSlice(v.Type(), len(w.elems), len(w.elems))
			for i, e := range w.elems {
				l3Build(s.Index(i), t.Elem, e)
			}
			v.Set(s)
		}
	case TKArray:
		if len(w.elems) != v.Len() {
			fail("l3Build: array length")
		}
		for i, e := range w.elems {
			l3Build(v.Index(i), t.Elem, e)
		}
	case TKMap:
		if !w.isNil {
			m := reflect.MakeMap(v.Type())
			for i, e := range w.elems {
				x := reflect.New(v.Type().Elem()).Elem()
				l3Build(x, t.Elem, e)
				m.SetMapIndex(reflect.ValueOf(w.names[i]), x)
			}
			v.Set(m)
		}
	case TKPtr:
		if !w.isNil {
			p := reflect.New(v.Type().Elem())
			l3Build(p.Elem(), t.Elem, w.elems[0])
			v.Set(p)
		}
	case TKStruct:
		if len(w.elems) != len(t.Fields) {
			fail("l3Build: struct fields")
		}
		for i, f := range t.Fields {
			l3Build(v.Field(i), f.Type, w.elems[i])
		}
	case TKAny:
		if !w.isNil {
			dt := map[byte]*TypeDesc{'b': tdBool, 'F': tdFloat, 's': tdString, 'L': tdSliceAny, 'M': tdMapAny}[w.elems[0].tag]
			if dt == nil {
				fail("l3Build: interface holding %q", string(w.elems[0].tag))
			}
			e := reflect.New(dt.GoType()).Elem()
			l3Build(e, dt, w.elems[0])
			v.Set(e)
		}
	}
}

// l3TreesEqualModNumbers compares two tree token strings, number literals by their float64 value.
func l3TreesEqualModNumbers(a, b string) bool {
	ta, tb := strings.Fields(a), strings.Fields(b)
	if len(ta) != len(tb) {
		return false
	}
	for i := range ta {
		if ta[i] == tb[i] {
			continue
		}
		if ta[i][0] != 'N' || tb[i][0] != 'N' {
			return false
		}
		x, err1 := strconv.ParseFloat(string(unhx(ta[i][1:])), 64)
		y, err2 := strconv.ParseFloat(string(unhx(tb[i][1:])), 64)
		if err1 != nil || err2 != nil || math.Float64bits(x) != math.Float64bits(y) {
			return false
		}
	}
	return true
}

// ---------------------------------------------------------------------------------------------

type l3Case struct {
	name string // corpus name ("" for generated)
	t    *TypeDesc
	mo   int
	v    reflect.Value // addressable
	vw   string
	addr bool // Marshal(&v) rather than Marshal(v)

	wantText string // corpus: expected Marshal output ("" unchecked, "ERR" = must fail on invalid UTF-8)
	wantDec  string // corpus: expected decoded value tokens ("" unchecked)

	facts  l3Facts
	goSafe bool

	marOK   bool
	b       []byte
	marCls  string
	marErr  string
	tree    string
	unmOK   bool
	unmErr  string
	v2      reflect.Value
	v2w     string
	mar2OK  bool
	b2      []byte
	tree2   string
	mar2Err string

	liMar, liRt, liTyped, liSafe int
}

func (cs *l3Case) input() []byte {
	return []byte(strconv.Itoa(cs.mo) + "|" + cs.t.Wire() + "|" + cs.vw)
}

func (cs *l3Case) detail(extra map[string]any) map[string]any {
	d := map[string]any{"type": cs.t.Wire(), "gotype": trunc(cs.t.GoType().String(), 300), "option_word": cs.mo, "value": cs.vw,
		"marshal_of_pointer": cs.addr}
	if cs.name != "" {
		d["corpus"] = cs.name
	}
	if cs.marOK {
		d["impl_marshal"] = string(cs.b)
		switch {
		case cs.unmOK:
			d["impl_decoded"] = cs.v2w
			if cs.mar2OK {
				d["impl_remarshal"] = string(cs.b2)
			} else {
				d["impl_remarshal"] = "error: " + cs.mar2Err
			}
		case cs.unmErr != "":
			d["impl_decoded"] = "error: " + cs.unmErr
		}
	} else if cs.marErr != "" {
		d["impl_marshal"] = "error[" + cs.marCls + "]: " + cs.marErr
	}
	if len(cs.facts.unsafe) > 0 {
		d["unsafe_shapes"] = cs.facts.unsafe
	}
	for k, v := range extra {
		d[k] = v
	}
	return d
}

// l3Shared collects, across the workers, the smallest example of every unsafe shape.
type l3Shared struct {
	mu     sync.Mutex
	shapes map[string]*l3ShapeEx
}

type l3ShapeEx struct {
	n    int64
	size int
	text string
}

type l3Worker struct {
	c    *Ctx
	sh   *l3Shared
	or   *Oracle
	r    *rand.Rand
	hits map[string]int64
	curT *TypeDesc
	curN int
}

func newL3Worker(c *Ctx, sh *l3Shared, r *rand.Rand) *l3Worker {
	return &l3Worker{c: c, sh: sh, or: c.NewOracle(), r: r, hits: map[string]int64{}}
}

func (w *l3Worker) hit(b string) { w.hits[b]++ }

func (w *l3Worker) flushHits() {
	for k, n := range w.hits {
		w.c.HitN(k, n)
	}
	w.hits = map[string]int64{}
}

func (w *l3Worker) violate(kind, op string, cs *l3Case, extra map[string]any) {
	w.c.Violate(kind, op, cs.input(), cs.detail(extra))
}

func (w *l3Worker) nextType() *TypeDesc {
	if w.curT == nil || w.curN <= 0 {
		for tries := 0; ; tries++ { // three quarters of the tiny types (a scalar, a slice of a scalar …) are redrawn
			w.curT = GenType(w.r, 4)
			if tries >= 3 || w.curT.Size() >= 3 || w.r.IntN(4) == 0 {
				break
			}
		}
		w.curN = 1 + w.r.IntN(6)
	}
	w.curN--
	return w.curT
}

func (w *l3Worker) gen() *l3Case {
	cs := &l3Case{t: w.nextType()}
	if x := w.r.IntN(100); x >= 55 {
		cs.mo = 1 + (x-55)/15 // 1,2,3 with 15% each
	}
	for tries := 0; ; tries++ { // two thirds of the values that are nil/empty at the root are redrawn
		cs.v = GenValueFor(w.r, cs.t, 4)
		if tries >= 2 || !l3EmptyRoot(cs.v) || w.r.IntN(3) == 0 {
			break
		}
	}
	cs.addr = w.r.IntN(4) != 0
	return cs
}

// l3EmptyRoot: a nil/empty slice or map, a nil pointer or a nil interface at the root.
func l3EmptyRoot(v reflect.Value) bool {
	switch v.Kind() {
	case reflect.Slice, reflect.Map:
		return v.Len() == 0
	case reflect.Pointer, reflect.Interface:
		return v.IsNil()
	}
	return false
}

// marshal calls json.Marshal on v (through its address or by value) under guard.
func (w *l3Worker) marshal(cs *l3Case, v reflect.Value, addr bool, what string) (b []byte, err error, pan bool) {
	var in any
	if addr {
		in = v.Addr().Interface()
	} else {
		in = v.Interface() // for an `any` root this is the dynamic value (nil for a nil interface)
	}
	if p := guard(func() { b, err = json.Marshal(in, l3MarOpts[cs.mo]...) }); p != nil {
		w.c.Panic("Marshal", cs.input(), p, cs.detail(map[string]any{"call": what}))
		return nil, nil, true
	}
	return b, err, false
}

// phaseA runs the implementation and the Go-only predicates, and queues the oracle lines.
func (w *l3Worker) phaseA(cs *l3Case, lines *[]string) bool {
	add := func(l string) int {
		*lines = append(*lines, l)
		return len(*lines) - 1
	}
	cs.vw = ValueWire(cs.v, cs.t)
	cs.facts.walk(cs.v, cs.t, cs.mo)
	cs.goSafe = l3Safe(cs.v, cs.mo)
	if cs.goSafe != (len(cs.facts.unsafe) == 0) {
		fail("C04L3: l3Safe and the shape walk disagree on %s", cs.vw)
	}
	bad := cs.facts.badStr || cs.facts.badKey

	b, err, pan := w.marshal(cs, cs.v, cs.addr, "Marshal(v)")
	if pan {
		return false
	}
	if err != nil {
		cs.marCls, cs.marErr = l3MarErrClass(err), err.Error()
		if !bad {
			w.violate("mar-accept", "Marshal", cs, map[string]any{"why": "Marshal fails on a value without invalid UTF-8"})
		}
	} else {
		cs.marOK, cs.b = true, b
		if bad {
			w.violate("mar-accept", "Marshal", cs, map[string]any{"why": "Marshal accepts a value holding invalid UTF-8 (default options)"})
		}
		node, perr := ParseJSONTree(b)
		switch {
		case perr != nil:
			w.violate("mar-dupfree", "Marshal", cs, map[string]any{"why": "the output of Marshal does not parse: " + perr.Error()})
		default:
			cs.tree = node.Wire()
			if !node.DupFree() {
				w.violate("mar-dupfree", "Marshal", cs, map[string]any{"why": "an object in the output repeats a member name"})
			}
		}
		// the other calling convention must print the same bytes
		if w.r.IntN(8) == 0 {
			bo, erro, pano := w.marshal(cs, cs.v, !cs.addr, "Marshal, other calling convention")
			if pano {
				return false
			}
			if erro != nil || !bytes.Equal(bo, b) {
				w.violate("rt-fixpoint", "Marshal", cs, map[string]any{"why": "Marshal(v) and Marshal(&v) differ", "other": string(bo), "other_err": fmt.Sprint(erro)})
			}
		}

		// Unmarshal into a fresh zero value, default options
		ptr := reflect.New(cs.t.GoType())
		var uerr error
		if p := guard(func() { uerr = json.Unmarshal(b, ptr.Interface()) }); p != nil {
			w.c.Panic("Unmarshal", cs.input(), p, cs.detail(map[string]any{"call": "Unmarshal(Marshal(v))"}))
			return false
		}
		if uerr != nil {
			cs.unmErr = uerr.Error()
			w.violate("rt-accept", "Unmarshal", cs, map[string]any{"why": "Unmarshal rejects the output of Marshal"})
		} else {
			cs.unmOK, cs.v2 = true, ptr.Elem()
			cs.v2w = ValueWire(cs.v2, cs.t)
			b2, err2, pan2 := w.marshal(cs, cs.v2, true, "Marshal(decoded)")
			if pan2 {
				return false
			}
			if err2 != nil {
				cs.mar2Err = err2.Error()
				w.violate("rt-fixpoint", "Marshal", cs, map[string]any{"why": "Marshal fails on the decoded value"})
			} else {
				cs.mar2OK, cs.b2 = true, b2
				if !bytes.Equal(b, b2) {
					w.violate("rt-fixpoint", "Marshal", cs, map[string]any{"why": "Marshal(Unmarshal(Marshal(v))) differs from Marshal(v)"})
				}
				if t2, e := TreeOfJSON(b2); e == nil {
					cs.tree2 = t2
				}
			}
			if w.or == nil { // Go-only mode: the value predicates with the Go-side safety
				w.valuePredicates(cs)
			}
		}
	}

	if w.or != nil {
		tw := cs.t.Wire()
		mo := strconv.Itoa(cs.mo)
		cs.liMar = add("arsh mar " + mo + " " + tw + " " + cs.vw)
		cs.liRt = add("arsh rt " + mo + " " + tw + " " + cs.vw)
		cs.liTyped = add("arsh typed " + tw + " " + cs.vw)
		cs.liSafe = add("arsh safe " + mo + " " + cs.vw)
	}
	return true
}

// valuePredicates: rt-value on safe values, rt-collapse on the excluded ones.
func (w *l3Worker) valuePredicates(cs *l3Case) {
	if !cs.marOK || !cs.unmOK {
		return
	}
	if cs.goSafe {
		if d := l3Diff(cs.v, cs.v2, "$"); d != "" {
			w.violate("rt-value", "Unmarshal", cs, map[string]any{"why": "the decoded value differs from the original beyond nil≈empty", "diff": d})
		}
		return
	}
	w.hit("unsafe-collapse")
	var want reflect.Value
	if p := guard(func() { want = l3Collapse(cs.v, cs.mo) }); p != nil {
		fail("C04L3: l3Collapse panicked on %s: %v", cs.vw, p)
	}
	if d := l3Diff(want, cs.v2, "$"); d != "" {
		w.violate("rt-collapse", "Unmarshal", cs, map[string]any{"why": "outside `safe`: the decoded value is not the original with the null-printing pointers/interfaces set to nil",
			"diff": d, "predicted": ValueWire(want, cs.t)})
	}
}

// phaseB compares with the oracle's answers and records the distribution.
func (w *l3Worker) phaseB(cs *l3Case, ans []string) {
	bad := cs.facts.badStr || cs.facts.badKey
	agreed := true
	if ans != nil {
		aMar, aRt, aTyped, aSafe := ans[cs.liMar], ans[cs.liRt], ans[cs.liTyped], ans[cs.liSafe]
		// typed
		if (aTyped == "1") != !bad {
			agreed = false
			w.violate("corr-typed", "hasType", cs, map[string]any{"model_typed": aTyped, "invalid_utf8_injected": bad})
		}
		// safe
		if aSafe != "0" && aSafe != "1" {
			fail("C04L3: arsh safe answered %q", aSafe)
		}
		safeAgree := (aSafe == "1") == cs.goSafe
		if !safeAgree {
			agreed = false
			w.violate("corr-safe", "safe", cs, map[string]any{"model_safe": aSafe, "go_safe": cs.goSafe})
		}
		// mar
		switch {
		case strings.HasPrefix(aMar, "ok "):
			mt := aMar[3:]
			switch {
			case !cs.marOK:
				agreed = false
				w.violate("corr-mar", "Marshal", cs, map[string]any{"model": trunc(aMar, 2000)})
			case cs.tree != "" && cs.tree != mt:
				agreed = false
				if l3TreesEqualModNumbers(cs.tree, mt) {
					w.hit("float-text-diff")
				}
				w.violate("corr-mar", "Marshal", cs, map[string]any{"model": trunc(aMar, 2000), "impl_tree": trunc(cs.tree, 2000)})
			}
		case aMar == "Minvalidutf8":
			if cs.marOK || cs.marCls != "invalidutf8" {
				agreed = false
				w.violate("corr-mar", "Marshal", cs, map[string]any{"model": aMar})
			}
			if !bad {
				agreed = false
				w.violate("corr-typed", "Marshal", cs, map[string]any{"model": aMar, "why": "model reports invalid UTF-8 but none was injected"})
			}
		default: // Milltyped, Munmodelled: never expected for generated values
			agreed = false
			w.violate("corr-mar", "Marshal", cs, map[string]any{"model": aMar, "why": "the model rejects a generated value"})
		}
		// rt
		parts := strings.Split(aRt, " ; ")
		if parts[0] != aMar {
			fail("C04L3: `arsh rt` starts with %q but `arsh mar` answered %q", trunc(parts[0], 300), trunc(aMar, 300))
		}
		if cs.marOK && strings.HasPrefix(aMar, "ok ") {
			switch {
			case len(parts) < 2:
				fail("C04L3: short `arsh rt` answer %q", trunc(aRt, 300))
			case strings.HasPrefix(parts[1], "ok "):
				if !cs.unmOK {
					agreed = false
					w.violate("corr-rt", "Unmarshal", cs, map[string]any{"model_decoded": trunc(parts[1], 2000)})
				} else if eq, d := ValueEqualsWire(cs.v2, cs.t, parts[1][3:]); !eq {
					agreed = false
					w.violate("corr-rt", "Unmarshal", cs, map[string]any{"model_decoded": trunc(parts[1], 2000), "diff": d})
				}
				if len(parts) < 3 {
					fail("C04L3: short `arsh rt` answer %q", trunc(aRt, 300))
				}
				if cs.unmOK {
					switch {
					case strings.HasPrefix(parts[2], "ok "):
						if !cs.mar2OK || cs.tree2 != parts[2][3:] {
							agreed = false
							w.violate("corr-rt", "Marshal", cs, map[string]any{"model_remarshal": trunc(parts[2], 2000), "impl_tree": trunc(cs.tree2, 2000)})
						}
					default:
						agreed = false
						w.violate("corr-rt", "Marshal", cs, map[string]any{"model_remarshal": parts[2]})
					}
				}
			default: // the model's unmarshal fails on the model's own marshal output
				agreed = false
				w.violate("corr-rt", "Unmarshal", cs, map[string]any{"model_decoded": parts[1], "impl_unmarshal_ok": cs.unmOK})
			}
		}
		if safeAgree {
			w.valuePredicates(cs)
		}
		if agreed && cs.marOK && cs.unmOK && cs.mar2OK && len(cs.facts.unsafe) > 0 {
			w.recordShapes(cs, parts)
		}
	}

	// corpus expectations
	if cs.name != "" {
		switch {
		case cs.wantText == "ERR":
			if cs.marOK || cs.marCls != "invalidutf8" {
				w.violate("corr-corpus", "Marshal", cs, map[string]any{"want": "an invalid-UTF-8 error"})
			}
		case cs.wantText != "":
			if !cs.marOK || string(cs.b) != cs.wantText {
				w.violate("corr-corpus", "Marshal", cs, map[string]any{"want": cs.wantText})
			}
		}
		if cs.wantDec != "" {
			if !cs.unmOK {
				w.violate("corr-corpus", "Unmarshal", cs, map[string]any{"want_decoded": cs.wantDec})
			} else if eq, d := ValueEqualsWire(cs.v2, cs.t, cs.wantDec); !eq {
				w.violate("corr-corpus", "Unmarshal", cs, map[string]any{"want_decoded": cs.wantDec, "diff": d})
			}
		}
	}

	// distribution
	f := &cs.facts
	w.hit("root/" + cs.t.Kind.String())
	w.hit("mo/" + strconv.Itoa(cs.mo))
	if cs.addr {
		w.hit("call/Marshal(&v)")
	} else {
		w.hit("call/Marshal(v)")
	}
	if cs.marOK {
		w.hit("mar/ok")
		switch n := len(cs.b); {
		case n < 8:
			w.hit("json-bytes/<8")
		case n < 64:
			w.hit("json-bytes/8-63")
		case n < 512:
			w.hit("json-bytes/64-511")
		default:
			w.hit("json-bytes/>=512")
		}
		if cs.goSafe {
			w.hit("safe/1")
		} else {
			w.hit("safe/0")
		}
	} else {
		w.hit("mar/err-" + cs.marCls)
	}
	for _, p := range []struct {
		on   bool
		name string
	}{{f.badStr, "invalid-utf8/string"}, {f.badKey, "invalid-utf8/map-key"}, {f.nilSlice, "seen/nil-slice"}, {f.emptySlice, "seen/empty-slice"},
		{f.nilMap, "seen/nil-map"}, {f.emptyMap, "seen/empty-map"}, {f.spareCap, "seen/spare-capacity"}, {f.ptrDepth >= 2, "seen/ptr-depth>=2"},
		{f.ptrDepth >= 3, "seen/ptr-depth>=3"}} {
		if p.on {
			w.hit(p.name)
		}
	}
	for k := range f.anyDyn {
		w.hit("any-dyn/" + k)
	}
	seenShape := map[string]bool{}
	for _, s := range f.unsafe {
		if !seenShape[s] {
			seenShape[s] = true
			if cs.marOK {
				w.hit("unsafe/" + s)
			}
		}
	}
	nontrivial := false
	switch cs.t.Kind {
	case TKSlice, TKArray, TKMap, TKStruct, TKPtr:
		nontrivial = true
	case TKAny:
		nontrivial = !cs.v.IsNil()
	}
	w.c.Case(string(cs.input()), nontrivial)
}

// recordShapes keeps, per unsafe shape, the smallest agreed example of what the real code returned.
func (w *l3Worker) recordShapes(cs *l3Case, rt []string) {
	seen := map[string]bool{}
	for _, s := range cs.facts.unsafe {
		if seen[s] {
			continue
		}
		seen[s] = true
		size := len(cs.vw) + len(cs.t.Wire())
		if len(cs.facts.unsafe) > 1 {
			size += 1000 // prefer examples with a single unsafe holder
		}
		w.sh.mu.Lock()
		ex := w.sh.shapes[s]
		if ex == nil {
			ex = &l3ShapeEx{size: 1 << 30}
			w.sh.shapes[s] = ex
		}
		ex.n++
		if size < ex.size {
			ex.size = size
			ex.text = fmt.Sprintf("type %s (%s) value `%s` mo=%d: Marshal=%s ; Unmarshal returned `%s` (model: `%s`) ; re-Marshal=%s (fixpoint holds, value NOT restored)",
				cs.t.Wire(), trunc(cs.t.GoType().String(), 120), cs.vw, cs.mo, trunc(string(cs.b), 200), cs.v2w, strings.TrimPrefix(rt[1], "ok "), trunc(string(cs.b2), 200))
		}
		w.sh.mu.Unlock()
	}
}

func (w *l3Worker) runBatch(cases []*l3Case) {
	var lines []string
	live := make([]bool, len(cases))
	for i, cs := range cases {
		live[i] = w.phaseA(cs, &lines)
	}
	var ans []string
	if w.or != nil && len(lines) > 0 {
		ans = w.or.Ask(lines)
		for i, a := range ans {
			if strings.HasPrefix(a, "ERR") || a == "" {
				fail("C04L3: oracle rejected line %q: %q", trunc(lines[i], 400), a)
			}
		}
	}
	for i, cs := range cases {
		if live[i] {
			w.phaseB(cs, ans)
		}
	}
	w.flushHits()
}

func (w *l3Worker) run(n int, sample bool) {
	for done := 0; done < n; {
		b := l3Batch
		if n-done < b {
			b = n - done
		}
		cases := make([]*l3Case, 0, b)
		for i := 0; i < b; i++ {
			cases = append(cases, w.gen())
		}
		w.runBatch(cases)
		if sample && done == 0 {
			k := 0
			for _, cs := range cases {
				if k >= 6 {
					break
				}
				if cs.t.Size() >= 3 && len(cs.vw) < 400 {
					w.c.Sample(cs.detail(nil))
					k++
				}
			}
		}
		done += b
	}
}

// ---------------------------------------------------------------------------------------------
// deterministic corpus

func l3Corpus() []*l3Case {
	var out []*l3Case
	mk := func(name string, t *TypeDesc, mo int, value, wantText, wantDec string) {
		out = append(out, &l3Case{name: name, t: t, mo: mo, v: l3ValueFromWire(t, value), addr: len(out)%2 == 0, wantText: wantText, wantDec: wantDec})
	}
	sl := tdSlice(tdInt(32))
	mp := tdMap(tdInt(8))
	for mo := 0; mo < 4; mo++ {
		s := strconv.Itoa(mo)
		nilS, nilSDec := "[]", "L0"
		if mo&1 != 0 {
			nilS, nilSDec = "null", "Ln"
		}
		nilM, nilMDec := "{}", "M0"
		if mo&2 != 0 {
			nilM, nilMDec = "null", "Mn"
		}
		mk("nil-slice/mo"+s, sl, mo, "Ln", nilS, nilSDec)
		mk("empty-slice/mo"+s, sl, mo, "L0", "[]", "L0")
		mk("nil-map/mo"+s, mp, mo, "Mn", nilM, nilMDec)
		mk("empty-map/mo"+s, mp, mo, "M0", "{}", "M0")
		// pointers and interfaces holding nil slices/maps: unsafe exactly when the bit is set
		pS, pSDec := "[]", "P L0"
		iS, iSDec := "[]", "I L0"
		if mo&1 != 0 {
			pS, pSDec, iS, iSDec = "null", "Pn", "null", "In"
		}
		pM, pMDec := "{}", "P M0"
		iM, iMDec := "{}", "I M0"
		if mo&2 != 0 {
			pM, pMDec, iM, iMDec = "null", "Pn", "null", "In"
		}
		mk("ptr-to-nil-slice/mo"+s, tdPtr(sl), mo, "P Ln", pS, pSDec)
		mk("ptr-to-nil-map/mo"+s, tdPtr(mp), mo, "P Mn", pM, pMDec)
		mk("any-holding-nil-slice/mo"+s, tdAny, mo, "I Ln", iS, iSDec)
		mk("any-holding-nil-map/mo"+s, tdAny, mo, "I Mn", iM, iMDec)
	}
	mk("ptr-ptr-nil", tdPtr(tdPtr(tdInt(32))), 0, "P Pn", "null", "Pn")
	mk("ptr-ptr-ptr-nil", tdPtr(tdPtr(tdPtr(tdInt(8)))), 0, "P P Pn", "null", "Pn")
	mk("ptr-ptr-int", tdPtr(tdPtr(tdInt(32))), 0, "P P i-7", "-7", "P P i-7")
	mk("ptr-to-nil-any", tdPtr(tdAny), 0, "P In", "null", "Pn")
	mk("ptr-to-any-holding-nil-slice/mo1", tdPtr(tdAny), 1, "P I Ln", "null", "Pn")
	mk("slice-of-nil-and-non-nil-ptrs", tdSlice(tdPtr(tdInt(8))), 0, "L2 Pn P i1", "[null,1]", "L2 Pn P i1")
	mk("array-of-any-nil-slices/mo1", tdArray(3, tdAny), 1, "R3 In I Ln I L0", "[null,null,[]]", "R3 In In I L0")
	mk("struct-field-ptr-ptr-nil", tdStruct(fld("a", tdPtr(tdPtr(tdBool))), fld("b", tdPtr(tdBool))), 0, "T2 61 P Pn 62 P b1", `{"a":null,"b":true}`, "T2 61 Pn 62 P b1")
	mk("map-key-order", mp, 0, "M4 - i0 61 i1 62 i2 c3a9 i3", `{"":0,"a":1,"b":2,"é":3}`, "M4 - i0 61 i1 62 i2 c3a9 i3")
	mk("map-key-order-bytewise", tdMap(tdBool), 0, "M5 41 b1 5a b0 61 b1 61c3a9 b0 efbfbf b1", `{"A":true,"Z":false,"a":true,"aé":false,"`+"￿"+`":true}`, "")
	// bytewise (UTF-8) order, not UTF-16 order: U+FFFF (ef bf bf) sorts before U+10000 (f0 90 80 80)
	mk("map-key-order-utf8-not-utf16", tdMap(tdInt(8)), 0, "M2 efbfbf i1 f0908080 i2", "{\"\uffff\":1,\"\U00010000\":2}", "")
	mk("any-map-key-order", tdAny, 0, "I M3 - In 61 I L1 I M0 62 I b0", `{"":null,"a":[{}],"b":false}`, "I M3 - In 61 I L1 I M0 62 I b0")
	mk("int-boundaries", tdStruct(fld("a", tdInt(64)), fld("b", tdInt(64)), fld("c", tdUint(64)), fld("d", tdInt(8)), fld("x", tdUint(8))), 0,
		"T5 61 i-9223372036854775808 62 i9223372036854775807 63 u18446744073709551615 64 i-128 78 u255",
		`{"a":-9223372036854775808,"b":9223372036854775807,"c":18446744073709551615,"d":-128,"x":255}`, "")
	fl := "L7"
	for _, x := range []float64{math.Copysign(0, -1), 1e21, 5e-324, 1e20, 1e-6, 1e-7, math.MaxFloat64} {
		fl += " F" + hx(jsonwire.AppendFloat(nil, x, 64))
	}
	mk("floats", tdSlice(tdFloat), 0, fl, `[-0,1e+21,5e-324,100000000000000000000,0.000001,1e-7,1.7976931348623157e+308]`, fl)
	mk("any-float-minus-zero", tdAny, 0, "I F2d30", "-0", "I F2d30")
	every := tdStruct(fld("b", tdBool), fld("i", tdInt(16)), fld("u", tdUint(16)), fld("f", tdFloat), fld("s", tdString),
		fld("l", tdSlice(tdInt(8))), fld("r", tdArray(2, tdInt(8))), fld("m", tdMap(tdInt(8))), fld("p", tdPtr(tdInt(8))),
		fld("t", tdStruct(fld("x", tdInt(8)))), fld("a", tdAny))
	everyW := "T11 62 b1 69 i-5 75 u7 66 F312e35 73 s78 6c L2 i1 i2 72 R2 i3 i4 6d M1 6b i5 70 P i6 74 T1 78 i7 61 I M1 71 I L1 I F31"
	mk("struct-all-kinds", every, 0, everyW, `{"b":true,"i":-5,"u":7,"f":1.5,"s":"x","l":[1,2],"r":[3,4],"m":{"k":5},"p":6,"t":{"x":7},"a":{"q":[1]}}`, everyW)
	mk("struct-all-kinds-zero/mo3", every, 3, "T11 62 b0 69 i0 75 u0 66 F30 73 s- 6c Ln 72 R2 i0 i0 6d Mn 70 Pn 74 T1 78 i0 61 In",
		`{"b":false,"i":0,"u":0,"f":0,"s":"","l":null,"r":[0,0],"m":null,"p":null,"t":{"x":0},"a":null}`, "T11 62 b0 69 i0 75 u0 66 F30 73 s- 6c Ln 72 R2 i0 i0 6d Mn 70 Pn 74 T1 78 i0 61 In")
	mk("string-escapes", tdSlice(tdString), 0, "L4 s71225c0a s00 se280a8 sf09f9880", "", "L4 s71225c0a s00 se280a8 sf09f9880")
	mk("invalid-utf8-string", tdString, 0, "sff", "ERR", "")
	mk("invalid-utf8-nested", tdSlice(tdAny), 0, "L2 I s61 I L1 I sc328", "ERR", "")
	mk("invalid-utf8-map-key", mp, 0, "M2 61 i1 ff i2", "ERR", "")
	mk("invalid-utf8-any-map-key", tdAny, 2, "I M1 c0af In", "ERR", "")
	mk("empty-struct-empty-array", tdStruct(fld("x", tdArray(0, tdInt(8))), fld("y", tdStruct())), 0, "T2 78 R0 79 T0", `{"x":[],"y":{}}`, "")
	return out
}

// ---------------------------------------------------------------------------------------------

func runC04L3(c *Ctx) {
	sh := &l3Shared{shapes: map[string]*l3ShapeEx{}}
	w0 := newL3Worker(c, sh, c.SubRng(2000))
	corpus := l3Corpus()
	w0.runBatch(corpus)
	c.Note("C04L3 corpus: %d hand-written cases", len(corpus))

	n := c.N(20000, 2000000)
	var wg sync.WaitGroup
	var mu sync.Mutex
	var failure any
	for i := 0; i < l3Workers; i++ {
		share := n / l3Workers
		if i < n%l3Workers {
			share++
		}
		wg.Add(1)
		go func(i, share int) {
			defer wg.Done()
			defer func() {
				if r := recover(); r != nil {
					mu.Lock()
					if failure == nil {
						failure = r
					}
					mu.Unlock()
				}
			}()
			var w *l3Worker
			if i == 0 {
				w = w0 // reuse the corpus worker's oracle
				w.r = c.SubRng(2100)
			} else {
				w = newL3Worker(c, sh, c.SubRng(2100+uint64(i)))
			}
			w.run(share, i == 0)
		}(i, share)
	}
	wg.Wait()
	if failure != nil {
		panic(failure) // machineryFailure is turned into exit 2 by main
	}
	mode := "with the Lean oracle"
	if c.OraclePath == "" {
		mode = "Go-only predicates (no oracle)"
	}
	c.Note("C04L3: %d generated cases on %d workers, %s", n, l3Workers, mode)
	var shapes []string
	for s := range sh.shapes {
		shapes = append(shapes, s)
	}
	sort.Strings(shapes)
	for _, s := range shapes {
		ex := sh.shapes[s]
		c.Note("C04L3 excluded point (not `safe`) %s, %d cases, all collapse as the model predicts; smallest: %s", s, ex.n, ex.text)
	}
}
