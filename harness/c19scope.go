package main

// C19 "scoped" — correspondence of the Scope model (lean/JsonV/Model/Scope.lean, oracle ops `opts exec|at|newcoder|pooled|guards`)
// with MarshalEncode / UnmarshalDecode on caller-owned coders.
//
// A case is a random value TREE (structs built with reflect.StructOf carrying random `string`/`format` tags, slices,
// failing leaves: chan fields, failing MarshalJSON/UnmarshalJSON, failing MarshalJSONTo/UnmarshalJSONFrom; probes: user
// methods that record the option struct they see; re-entrant user methods that call MarshalEncode/UnmarshalDecode on the
// coder they were handed, with their own options), random coder options (0-3) and random call options (0-3).
// Compared with the model:
//   - the coder's option struct after the call (all fields, both flag words) = `exec` of the tree's Act on the struct before;
//   - ok / error of the call;
//   - the option struct every reached probe saw = `at` along its path (call options joined, tag flags of the enclosing
//     member, WithinArshalCall) — this is the "call options take precedence inside the call" clause;
//   - the struct of a new coder = `newcoder`.
// Evaluated on the implementation: after the call (failed or not) a probe run through the same coder sees the options a
// fresh coder with the same construction options shows, and after a successful call the bytes the coder produces for a
// further value are those of a fresh coder.

import (
	"bytes"
	"errors"
	"fmt"
	"math/rand/v2"
	"reflect"
	"strings"

	json "github.com/go-json-experiment/json"
	"github.com/go-json-experiment/json/internal/jsonflags"
	"github.com/go-json-experiment/json/internal/jsonopts"
	"github.com/go-json-experiment/json/jsontext"
)

// ---- probe and re-entry types (identified by type, so that values created by Unmarshal are recognised too)

type c19Idx interface{ idx() int }
type c19i0 struct{}
type c19i1 struct{}
type c19i2 struct{}
type c19i3 struct{}
type c19i4 struct{}
type c19i5 struct{}

func (c19i0) idx() int { return 0 }
func (c19i1) idx() int { return 1 }
func (c19i2) idx() int { return 2 }
func (c19i3) idx() int { return 3 }
func (c19i4) idx() int { return 4 }
func (c19i5) idx() int { return 5 }

const c19NProbe = 6

type c19ReCfg struct {
	opts  []json.Options
	inner any // marshal: the value; unmarshal: pointer to the target
}

var c19Cfg struct {
	fail [c19NProbe]bool
	snap [c19NProbe]string
	seen [c19NProbe]bool
	re   [c19NProbe]c19ReCfg
}

var errC19Probe = errors.New("probe failure")

type c19P[I c19Idx] struct{ X int }

func (c19P[I]) MarshalJSONTo(e *jsontext.Encoder) error {
	var i I
	k := i.idx()
	c19Cfg.snap[k] = c19StructStr(e.Options().(*jsonopts.Struct))
	c19Cfg.seen[k] = true
	if c19Cfg.fail[k] {
		return errC19Probe
	}
	return e.WriteToken(jsontext.Int(7))
}

func (*c19P[I]) UnmarshalJSONFrom(d *jsontext.Decoder) error {
	var i I
	k := i.idx()
	c19Cfg.snap[k] = c19StructStr(d.Options().(*jsonopts.Struct))
	c19Cfg.seen[k] = true
	if err := d.SkipValue(); err != nil {
		return err
	}
	if c19Cfg.fail[k] {
		return errC19Probe
	}
	return nil
}

type c19R[I c19Idx] struct{ X int }

func (c19R[I]) MarshalJSONTo(e *jsontext.Encoder) error {
	var i I
	cfg := c19Cfg.re[i.idx()]
	return json.MarshalEncode(e, cfg.inner, cfg.opts...)
}

func (*c19R[I]) UnmarshalJSONFrom(d *jsontext.Decoder) error {
	var i I
	cfg := c19Cfg.re[i.idx()]
	return json.UnmarshalDecode(d, cfg.inner, cfg.opts...)
}

func (*c19Bad) UnmarshalJSON([]byte) error { return fmt.Errorf("boom") }

var c19ProbeTypes = []reflect.Type{reflect.TypeFor[c19P[c19i0]](), reflect.TypeFor[c19P[c19i1]](), reflect.TypeFor[c19P[c19i2]](),
	reflect.TypeFor[c19P[c19i3]](), reflect.TypeFor[c19P[c19i4]](), reflect.TypeFor[c19P[c19i5]]()}
var c19ReTypes = []reflect.Type{reflect.TypeFor[c19R[c19i0]](), reflect.TypeFor[c19R[c19i1]](), reflect.TypeFor[c19R[c19i2]](),
	reflect.TypeFor[c19R[c19i3]](), reflect.TypeFor[c19R[c19i4]](), reflect.TypeFor[c19R[c19i5]]()}

// ---- value trees

type c19Tag struct {
	str    bool
	format string
}

type c19Node struct {
	kind string // int bytes chan bad probe slice struct reenter
	id   int    // probe / reenter
	kids []*c19Node
	tags []c19Tag  // struct: one per kid
	opts []optCtor // reenter: the options of the nested call
	n    int       // slice length
}

type c19Gen struct {
	r       *rand.Rand
	ctors   []optCtor
	nprobe  int
	nre     int
	budget  int
	failing bool
}

func (g *c19Gen) node(depth int) *c19Node {
	g.budget--
	k := g.r.IntN(12)
	if depth == 0 && g.r.IntN(4) != 0 {
		k = 6 + g.r.IntN(6) // mostly a composite at the root
	}
	if depth >= 3 || g.budget <= 0 {
		k = g.r.IntN(6)
	}
	switch {
	case k <= 1:
		return &c19Node{kind: "int"}
	case k == 2:
		return &c19Node{kind: "bytes"}
	case k == 3:
		if g.failing && g.r.IntN(2) == 0 {
			return &c19Node{kind: []string{"chan", "bad"}[g.r.IntN(2)]}
		}
		return &c19Node{kind: "int"}
	case k <= 5:
		if g.nprobe < c19NProbe {
			g.nprobe++
			return &c19Node{kind: "probe", id: g.nprobe - 1}
		}
		return &c19Node{kind: "int"}
	case k <= 7:
		return &c19Node{kind: "slice", n: 1 + g.r.IntN(2), kids: []*c19Node{g.node(depth + 1)}}
	case k == 8:
		if g.nre < c19NProbe {
			g.nre++
			n := &c19Node{kind: "reenter", id: g.nre - 1}
			for j := g.r.IntN(3); j > 0; j-- {
				n.opts = append(n.opts, g.ctors[g.r.IntN(len(g.ctors))])
			}
			n.kids = []*c19Node{g.node(depth + 1)}
			return n
		}
		return &c19Node{kind: "int"}
	default:
		n := &c19Node{kind: "struct"}
		for j := 1 + g.r.IntN(4); j > 0; j-- {
			kid := g.node(depth + 1)
			var t c19Tag
			switch kid.kind {
			case "int", "probe", "chan", "bad":
				t.str = g.r.IntN(2) == 0
			case "bytes":
				switch g.r.IntN(4) {
				case 0:
					t.format = "base64"
				case 1:
					t.format = "array"
				}
			}
			n.kids = append(n.kids, kid)
			n.tags = append(n.tags, t)
		}
		return n
	}
}

func (n *c19Node) typ() reflect.Type {
	switch n.kind {
	case "int":
		return reflect.TypeFor[int]()
	case "bytes":
		return reflect.TypeFor[[]byte]()
	case "chan":
		return reflect.TypeFor[chan int]()
	case "bad":
		return reflect.TypeFor[c19Bad]()
	case "probe":
		return c19ProbeTypes[n.id]
	case "reenter":
		return c19ReTypes[n.id]
	case "slice":
		return reflect.SliceOf(n.kids[0].typ())
	}
	var fs []reflect.StructField
	for i, k := range n.kids {
		tag := fmt.Sprintf("f%d", i)
		if n.tags[i].str {
			tag += ",string"
		}
		if n.tags[i].format != "" {
			tag += ",format:" + n.tags[i].format
		}
		fs = append(fs, reflect.StructField{Name: fmt.Sprintf("F%d", i), Type: k.typ(), Tag: reflect.StructTag(`json:"` + tag + `"`)})
	}
	return reflect.StructOf(fs)
}

// value fills v (of type n.typ()) for marshaling and registers the configuration of re-entrant nodes.
func (n *c19Node) value(v reflect.Value, marshal bool) {
	switch n.kind {
	case "int":
		v.SetInt(1)
	case "bytes":
		v.SetBytes([]byte("x"))
	case "chan":
		if marshal {
			v.Set(reflect.ValueOf(make(chan int)))
		}
	case "reenter":
		inner := reflect.New(n.kids[0].typ())
		n.kids[0].value(inner.Elem(), marshal)
		cfg := c19ReCfg{inner: inner.Interface()}
		for _, o := range n.opts {
			cfg.opts = append(cfg.opts, o.mk())
		}
		c19Cfg.re[n.id] = cfg
	case "slice":
		if marshal {
			s := reflect.MakeSlice(v.Type(), n.n, n.n)
			for i := 0; i < n.n; i++ {
				n.kids[0].value(s.Index(i), marshal)
			}
			v.Set(s)
		} else {
			n.kids[0].value(reflect.New(n.kids[0].typ()).Elem(), marshal) // registers nested configuration only
		}
	case "struct":
		for i, k := range n.kids {
			k.value(v.Field(i), marshal)
		}
	}
}

// text is the JSON input that unmarshals into the tree.
func (n *c19Node) text(tag c19Tag) string {
	switch n.kind {
	case "int":
		if tag.str {
			return `"1"`
		}
		return `1`
	case "bytes":
		if tag.format == "array" {
			return `[120]`
		}
		return `"eA=="`
	case "chan", "bad":
		return `0`
	case "probe":
		return `7`
	case "reenter":
		return n.kids[0].text(c19Tag{})
	case "slice":
		var es []string
		for i := 0; i < n.n; i++ {
			es = append(es, n.kids[0].text(c19Tag{}))
		}
		return "[" + strings.Join(es, ",") + "]"
	}
	var ms []string
	for i, k := range n.kids {
		ms = append(ms, fmt.Sprintf(`"f%d":%s`, i, k.text(n.tags[i])))
	}
	return "{" + strings.Join(ms, ",") + "}"
}

// effective values of the two options that decide where the real code fails
type c19Eff struct{ legacy, fmtsup bool }

func (e c19Eff) with(cs []optCtor) c19Eff {
	for _, c := range cs {
		switch c.name {
		case "ReportErrorsWithLegacySemantics":
			e.legacy = c.val.(bool)
		case "ExperimentalSupportFormatTag":
			e.fmtsup = c.val.(bool)
		case "DefaultOptionsV2":
			e.legacy = false
		case "DefaultOptionsV1":
			e.legacy = true
		}
	}
	return e
}

func c19Seq(as []string) string {
	switch len(as) {
	case 0:
		return "K"
	case 1:
		return as[0]
	}
	return "Q " + as[0] + " " + c19Seq(as[1:])
}

func c19OptToks(cs []optCtor) string {
	var ts []string
	for _, c := range cs {
		ts = append(ts, c19TokensTop(c.mk()))
	}
	return fmt.Sprintf("%d %s", len(cs), strings.Join(ts, " "))
}

type c19ProbePath struct {
	id   int
	path string
}

// act renders the callee tree of the node in the oracle's prefix form and collects the path of every probe.
func (n *c19Node) act(marshal bool, eff c19Eff, tag c19Tag, path string, probes *[]c19ProbePath) string {
	mar := b2s(marshal)
	fatal := "1"
	if !marshal && eff.legacy {
		fatal = "0"
	}
	switch n.kind {
	case "int":
		return "K"
	case "bytes":
		if tag.format == "array" {
			return "Q C f Q C t K"
		}
		return "K"
	case "chan", "bad":
		return "F " + fatal
	case "probe":
		*probes = append(*probes, c19ProbePath{n.id, path + " u"})
		if c19Cfg.fail[n.id] {
			return "U F " + fatal
		}
		return "U K"
	case "reenter":
		e2 := eff.with(n.opts)
		p2 := path + " u J " + mar + " 0 " + c19OptToks(n.opts)
		return "U L " + mar + " 0 " + c19OptToks(n.opts) + " " + n.kids[0].act(marshal, e2, c19Tag{}, p2, probes)
	case "slice":
		var es []string
		for i := 0; i < n.n; i++ {
			es = append(es, n.kids[0].act(marshal, eff, c19Tag{}, path+" c t", probes))
		}
		return "Q C t " + c19Seq(es)
	}
	hasFormat := false
	for _, t := range n.tags {
		hasFormat = hasFormat || t.format != ""
	}
	if hasFormat && !eff.fmtsup {
		if marshal {
			return "F 1" // refused before the `{` is written
		}
		return "Q C t F " + fatal // refused after the `{` has been read
	}
	var ms []string
	for i, k := range n.kids {
		t := n.tags[i]
		f := "-"
		if t.format != "" {
			f = hx([]byte(t.format))
		}
		p := path + " c t m " + b2s(t.str) + " " + f
		ms = append(ms, "M "+mar+" "+b2s(t.str)+" "+f+" "+k.act(marshal, eff, t, p, probes))
	}
	return "Q C t " + c19Seq(ms)
}

func c19AnyLegacy(cs []optCtor) bool {
	for _, c := range cs {
		if c.name == "ReportErrorsWithLegacySemantics" && c.val.(bool) {
			return true
		}
	}
	return false
}

func (n *c19Node) anyLegacy() bool {
	if c19AnyLegacy(n.opts) {
		return true
	}
	for _, k := range n.kids {
		if k.anyLegacy() {
			return true
		}
	}
	return false
}

func (n *c19Node) stripFormat() {
	for i := range n.tags {
		n.tags[i].format = ""
	}
	for _, k := range n.kids {
		k.stripFormat()
	}
}

// options whose effect on WHERE the real code fails or whether user methods are called is not mirrored by `act`
func c19ScopeCtors() []optCtor {
	var out []optCtor
	for _, c := range c19Ctors() {
		switch c.name {
		case "StringifyNumbers", "StringifyWithLegacySemantics", "CallMethodsWithLegacySemantics", "FormatByteArrayAsArray",
			"FormatBytesWithLegacySemantics", "DefaultOptionsV1", "MatchCaseSensitiveDelimiter", "RejectUnknownMembers", "OmitZeroStructFields":
			continue
		}
		out = append(out, c)
	}
	return out
}

func c19ScopeTree(c *Ctx, or *Oracle) {
	if or == nil {
		return
	}
	ctors := c19ScopeCtors()
	n := c.N(4000, 200000)
	type pend struct {
		line, want, kind, desc string
	}
	var batch []pend
	flush := func() {
		lines := make([]string, len(batch))
		for i, b := range batch {
			lines[i] = b.line
		}
		got := or.Ask(lines)
		for i, b := range batch {
			if b.kind == "exec" { // errF / errN (fatal or not for the struct unmarshaler) is not observable from outside
				got[i] = strings.TrimSuffix(strings.TrimSuffix(got[i], "F"), "N")
			}
			if got[i] != b.want {
				c.Violate("corr-scope-"+b.kind, "opts "+strings.Fields(b.line)[1], nil, map[string]any{"case": b.desc, "line": b.line, "impl": b.want, "model": got[i],
					"broken": "correspondence of the Scope model (" + b.kind + ")"})
			}
		}
		batch = batch[:0]
	}
	pick := func(k int) (cs []optCtor) {
		for ; k > 0; k-- {
			cs = append(cs, ctors[c.Rng.IntN(len(ctors))])
		}
		return
	}
	mk := func(cs []optCtor) (os []json.Options) {
		for _, x := range cs {
			os = append(os, x.mk())
		}
		return
	}
	descOf := func(cs []optCtor) string {
		var d []string
		for _, x := range cs {
			d = append(d, x.name+"("+x.arg+")")
		}
		return strings.Join(d, ",")
	}
	for i := 0; i < n; i++ {
		marshal := c.Rng.IntN(2) == 0
		pooled := c.Rng.IntN(4) == 0 // json.Marshal / json.Unmarshal: a pooled coder reset with the call options
		own, call := pick(c.Rng.IntN(4)), pick(c.Rng.IntN(4))
		if pooled {
			own = nil
		}
		if c.Rng.IntN(3) == 0 { // format tags need the experimental switch
			own = append(own, optCtor{name: "ExperimentalSupportFormatTag", arg: "true", mk: func() json.Options { return json.ExperimentalSupportFormatTag(true) }, val: true})
		}
		g := &c19Gen{r: c.Rng, ctors: ctors, budget: 10, failing: c.Rng.IntN(2) == 0}
		c19Cfg.fail = [c19NProbe]bool{}
		c19Cfg.seen = [c19NProbe]bool{}
		c19Cfg.re = [c19NProbe]c19ReCfg{}
		if g.failing {
			for k := range c19Cfg.fail {
				c19Cfg.fail[k] = c.Rng.IntN(3) == 0
			}
		}
		root := g.node(0)
		if !marshal && (c19AnyLegacy(own) || c19AnyLegacy(call) || root.anyLegacy()) {
			// a struct refused for an unsupported `format` tag leaves the decoder inside the object; with non-fatal errors the
			// callers would go on from there — not mirrored by `act`
			root.stripFormat()
		}
		rt := root.typ()
		val := reflect.New(rt)
		root.value(val.Elem(), marshal)
		in := root.text(c19Tag{})
		desc := fmt.Sprintf("marshal=%v own=[%s] call=[%s] type=%v fail=%v", marshal, descOf(own), descOf(call), rt, c19Cfg.fail)

		if pooled {
			var probes []c19ProbePath
			eff := c19Eff{}.with(call)
			root.act(marshal, eff, c19Tag{}, fmt.Sprintf("Z %s 0 %s", b2s(marshal), c19OptToks(call)), &probes)
			var err error
			if p := guard(func() {
				if marshal {
					_, err = json.Marshal(val.Interface(), mk(call)...)
				} else {
					err = json.Unmarshal([]byte(in), val.Interface(), mk(call)...)
				}
			}); p != nil {
				c.Panic("scoped-pooled", []byte(in), p, map[string]any{"case": desc})
				continue
			}
			_ = err
			nseen := 0
			for _, p := range probes {
				if c19Cfg.seen[p.id] {
					nseen++
					batch = append(batch, pend{"opts at 0 0 - - 0 0 0 0 - " + p.path, c19Cfg.snap[p.id], "at-pooled", desc + " pooled probe=" + fmt.Sprint(p.id)})
				}
			}
			c.Hit(fmt.Sprintf("scope-pooled-probes-reached=%d", min(nseen, 4)))
			// the next pooled call without options starts from nothing: a probe sees only what the entry point sets
			c19Cfg.fail = [c19NProbe]bool{}
			c19Cfg.seen = [c19NProbe]bool{}
			guard(func() {
				if marshal {
					_, err = json.Marshal(c19P[c19i0]{})
				} else {
					err = json.Unmarshal([]byte("7"), new(c19P[c19i0]))
				}
			})
			if c19Cfg.seen[0] {
				batch = append(batch, pend{fmt.Sprintf("opts at 0 0 - - 0 0 0 0 - Z %s 0 0  u", b2s(marshal)), c19Cfg.snap[0], "at-pooled-next", desc})
			}
			c.Case("scope-pooled:"+desc, true)
			if len(batch) >= 2000 {
				flush()
			}
			continue
		}
		var buf bytes.Buffer
		var enc *jsontext.Encoder
		var dec *jsontext.Decoder
		var live *jsonopts.Struct
		if marshal {
			enc = jsontext.NewEncoder(&buf, mk(own)...)
			live = enc.Options().(*jsonopts.Struct)
		} else {
			dec = jsontext.NewDecoder(strings.NewReader(in+" 7 [1]"), mk(own)...)
			live = dec.Options().(*jsonopts.Struct)
		}
		before := c19StructStr(live)
		batch = append(batch, pend{fmt.Sprintf("opts newcoder %s %s", b2s(marshal), c19OptToks(own)), before, "newcoder", desc})

		var probes []c19ProbePath
		eff := c19Eff{}.with(own).with(call)
		body := root.act(marshal, eff, c19Tag{}, fmt.Sprintf("J %s 0 %s", b2s(marshal), c19OptToks(call)), &probes)
		actLine := fmt.Sprintf("opts exec 0 %s L %s 0 %s %s", before, b2s(marshal), c19OptToks(call), body)

		var err error
		if p := guard(func() {
			if marshal {
				err = json.MarshalEncode(enc, val.Interface(), mk(call)...)
			} else {
				err = json.UnmarshalDecode(dec, val.Interface(), mk(call)...)
			}
		}); p != nil {
			c.Panic("scoped-tree", []byte(in), p, map[string]any{"case": desc})
			continue
		}
		after := c19StructStr(live)
		outcome := "ok"
		if err != nil {
			outcome = "err"
		}
		batch = append(batch, pend{actLine, after + " " + outcome, "exec", desc + " err=" + fmt.Sprint(err)})
		// property on the implementation: everything GetOption can see is as before
		if c19Observable(before) != c19Observable(after) {
			c.Violate("scoped-tree", "MarshalEncode/UnmarshalDecode", []byte(in), map[string]any{"case": desc, "before": before, "after": after, "err": fmt.Sprint(err)})
		}
		nseen := 0
		for _, p := range probes {
			if c19Cfg.seen[p.id] {
				nseen++
				batch = append(batch, pend{fmt.Sprintf("opts at %s %s", before, p.path), c19Cfg.snap[p.id], "at", desc + " probe=" + fmt.Sprint(p.id)})
			}
		}
		c.Hit(fmt.Sprintf("scope-tree-%s-%s", map[bool]string{true: "marshal", false: "unmarshal"}[marshal], outcome))
		c.Hit(fmt.Sprintf("scope-tree-probes-reached=%d", min(nseen, 4)))
		c.Hit(fmt.Sprintf("scope-tree-call-options=%d", len(call)))

		// continuing to use the coder = using a fresh coder with the same construction options
		c19Cfg.fail = [c19NProbe]bool{}
		c19Cfg.seen = [c19NProbe]bool{}
		type follow struct {
			P c19P[c19i0] `json:"p,string"`
			N int         `json:"n"`
			Q []c19P[c19i1]
		}
		if marshal {
			var fb bytes.Buffer
			fresh := jsontext.NewEncoder(&fb, mk(own)...)
			used0 := int(enc.OutputOffset())
			fv := follow{N: 3, Q: []c19P[c19i1]{{}}}
			var e1, e2 error
			var s1, s2 [2]string
			if p := guard(func() { e1 = json.MarshalEncode(enc, fv) }); p != nil {
				c.Panic("scoped-follow", nil, p, map[string]any{"case": desc})
				continue
			}
			s1 = [2]string{c19Cfg.snap[0], c19Cfg.snap[1]}
			guard(func() { e2 = json.MarshalEncode(fresh, fv) })
			s2 = [2]string{c19Cfg.snap[0], c19Cfg.snap[1]}
			if err == nil {
				if (e1 == nil) != (e2 == nil) || s1 != s2 || (e1 == nil && !bytes.Equal(bytes.TrimSpace(buf.Bytes()[min(used0, buf.Len()):]), bytes.TrimSpace(fb.Bytes()))) {
					c.Violate("scoped-fresh", "MarshalEncode", nil, map[string]any{"case": desc, "used": string(buf.Bytes()[min(used0, buf.Len()):]), "fresh": fb.String(),
						"e1": fmt.Sprint(e1), "e2": fmt.Sprint(e2), "seen-used": s1, "seen-fresh": s2})
				}
			} else if e1 == nil && e2 == nil && s1 != s2 { // after a failure the token state differs; the options a callee sees must not
				c.Violate("scoped-fresh-after-error", "MarshalEncode", nil, map[string]any{"case": desc, "seen-used": s1, "seen-fresh": s2})
			}
		} else if err == nil {
			var e1, e2 error
			// the used decoder continues with the rest of its input: ` 7 [1]`; the fresh one gets the same next value
			var t1, t2 c19P[c19i0]
			if p := guard(func() { e1 = json.UnmarshalDecode(dec, &t1) }); p != nil {
				c.Panic("scoped-follow", nil, p, map[string]any{"case": desc})
				continue
			}
			s1 := c19Cfg.snap[0]
			fresh2 := jsontext.NewDecoder(strings.NewReader(`7`), mk(own)...)
			guard(func() { e2 = json.UnmarshalDecode(fresh2, &t2) })
			s2 := c19Cfg.snap[0]
			if (e1 == nil) != (e2 == nil) || s1 != s2 {
				c.Violate("scoped-fresh", "UnmarshalDecode", []byte(in), map[string]any{"case": desc, "e1": fmt.Sprint(e1), "e2": fmt.Sprint(e2), "seen-used": s1, "seen-fresh": s2})
			}
		}
		c.Case("scope-tree:"+desc, true)
		if i < 2 {
			c.Sample(map[string]any{"op": "scope-tree", "case": desc, "line": actLine, "impl": after + " " + outcome})
		}
		if len(batch) >= 2000 {
			flush()
		}
	}
	flush()
}

// c19Observable drops the one thing GetOption cannot see: the presence bit of the internal WithinArshalCall flag.
func c19Observable(structStr string) string {
	f := strings.Fields(structStr)
	var p uint64
	fmt.Sscanf(f[0], "%x", &p)
	f[0] = fmt.Sprintf("%x", p&^uint64(jsonflags.WithinArshalCall))
	return strings.Join(f, " ")
}
