package main

// C15 — Struct fields map to members by the documented resolution rules.
//
// Tie B (correspondence): json.VerifStructFields(t) vs the Lean model `fields flatten` on the abstract
// graph derived from the SAME reflect.Type (c15GraphOf); json.VerifFoldName vs `fields fold`;
// parseFieldOptions vs an independent tag parser for the ASCII fragment (whose output is what the model sees).
// Predicates on the implementation through the public API: Marshal member names/order, which field a
// single member is stored into by Unmarshal (exact / case-insensitive / ambiguous / unknown / fallback,
// under MatchCaseInsensitiveNames, case:ignore, case:strict, MatchCaseSensitiveDelimiter,
// ReportErrorsWithLegacySemantics, RejectUnknownMembers), omitzero/omitempty/string, classic encoding/json
// parity of names and order — all against c15Rule, an implementation of the rule written from doc.go.

import (
	"bytes"
	"encoding"
	stdjson "encoding/json"
	"errors"
	"fmt"
	"math/rand/v2"
	"reflect"
	"sort"
	"strconv"
	"strings"
	"sync"
	"time"
	"unicode"
	"unicode/utf8"

	json "github.com/go-json-experiment/json"
	"github.com/go-json-experiment/json/jsontext"
	jsonv1 "github.com/go-json-experiment/json/v1"
)

func init() { register("C15", runC15) }

// ---------------------------------------------------------------------------------------------------
// independent tag parser (ASCII option fragment; the name part may be any text without , \ ' " `)

type c15Opts struct {
	Name      string
	HasName   bool
	Casing    int
	Embed     bool
	Omitzero  bool
	Omitempty bool
	String    bool
	Format    string
}

func c15IsIdent(s string) bool {
	if s == "" {
		return false
	}
	for i := 0; i < len(s); i++ {
		c := s[i]
		switch {
		case c == '_' || 'a' <= c && c <= 'z' || 'A' <= c && c <= 'Z':
		case '0' <= c && c <= '9' && i > 0:
		default:
			return false
		}
	}
	return true
}

// c15ParseTag: tag = [name] {"," option}; option = ident | "case:" ("ignore"|"strict") | "format:" (ident | 'text').
// Written from the grammar in doc.go, not from parseFieldOptions.
func c15ParseTag(goName, tag string) (o c15Opts, bad bool) {
	o.Name = goName
	if tag == "" {
		return o, false
	}
	parts := strings.Split(tag, ",")
	if n := parts[0]; n != "" {
		if strings.ContainsAny(n, "\\'\"`") || !utf8.ValidString(n) {
			bad = true
		} else {
			o.Name, o.HasName = n, true
		}
	}
	seen := map[string]bool{}
	formatSeen := false
	for _, p := range parts[1:] {
		key, val, colon := strings.Cut(p, ":")
		if !c15IsIdent(key) {
			bad = true
			continue
		}
		if formatSeen {
			bad = true
		}
		switch key {
		case "case":
			switch {
			case !colon:
				bad = true
			case val == "ignore":
				o.Casing |= 1
			case val == "strict":
				o.Casing |= 2
			default:
				bad = true
			}
		case "embed", "omitzero", "omitempty", "string":
			if colon {
				bad = true
			}
			switch key {
			case "embed":
				o.Embed = true
			case "omitzero":
				o.Omitzero = true
			case "omitempty":
				o.Omitempty = true
			case "string":
				o.String = true
			}
		case "format":
			switch {
			case !colon || val == "":
				bad = true
			case c15IsIdent(val):
				o.Format = val
			case len(val) >= 2 && val[0] == '\'' && val[len(val)-1] == '\'' && !strings.ContainsAny(val[1:len(val)-1], "\\'\""):
				if o.Format = val[1 : len(val)-1]; o.Format == "" {
					bad = true
				}
			default:
				bad = true
			}
			formatSeen = true
		default:
			if colon {
				bad = true
			}
			switch strings.ReplaceAll(strings.ToLower(key), "_", "") {
			case "case", "embed", "omitzero", "omitempty", "string", "format":
				bad = true
			}
		}
		if seen[key] || o.Casing == 3 {
			bad = true
		}
		seen[key] = true
	}
	return o, bad
}

// ---------------------------------------------------------------------------------------------------
// abstract graph derived from a real reflect.Type

type c15Decl struct {
	GoName                                       string
	Exported, Anonymous, HasTag, TagDash, TagErr bool
	O                                            c15Opts
	Ty                                           byte // S P V M K O
	Ref                                          int
	Methods, IsZeroer                            bool
	Typ                                          reflect.Type
	Tag                                          string
}

type c15Graph struct {
	Structs [][]c15Decl
	Types   []reflect.Type
	ids     map[reflect.Type]int
}

var (
	c15MethodIfaces = []reflect.Type{
		reflect.TypeFor[json.MarshalerTo](), reflect.TypeFor[json.Marshaler](), reflect.TypeFor[encoding.TextAppender](), reflect.TypeFor[encoding.TextMarshaler](),
		reflect.TypeFor[json.UnmarshalerFrom](), reflect.TypeFor[json.Unmarshaler](), reflect.TypeFor[encoding.TextUnmarshaler](),
	}
	c15ValueType   = reflect.TypeFor[jsontext.Value]()
	c15IsZeroIface = reflect.TypeFor[interface{ IsZero() bool }]()
)

func c15Implements(t reflect.Type, ifs ...reflect.Type) bool {
	for _, i := range ifs {
		if t.Implements(i) || reflect.PointerTo(t).Implements(i) {
			return true
		}
	}
	return false
}

func c15Indirect(t reflect.Type) reflect.Type {
	if t.Kind() == reflect.Pointer && t.Name() == "" {
		return t.Elem()
	}
	return t
}

func c15GraphOf(root reflect.Type) *c15Graph {
	g := &c15Graph{ids: map[reflect.Type]int{}}
	var add func(t reflect.Type) int
	add = func(t reflect.Type) int {
		if id, ok := g.ids[t]; ok {
			return id
		}
		id := len(g.Structs)
		g.ids[t] = id
		g.Structs = append(g.Structs, nil)
		g.Types = append(g.Types, t)
		decls := make([]c15Decl, t.NumField())
		for i := range decls {
			sf := t.Field(i)
			d := &decls[i]
			d.GoName, d.Exported, d.Anonymous, d.Typ = sf.Name, sf.IsExported(), sf.Anonymous, sf.Type
			d.Tag, d.HasTag = sf.Tag.Lookup("json")
			d.TagDash = d.Tag == "-"
			if !d.TagDash {
				d.O, d.TagErr = c15ParseTag(sf.Name, d.Tag)
			}
			tf := c15Indirect(sf.Type)
			d.Methods = c15Implements(tf, c15MethodIfaces...) && tf != c15ValueType
			d.IsZeroer = c15Implements(tf, c15IsZeroIface)
			switch {
			case tf.Kind() == reflect.Struct:
				d.Ty = 'S'
				if sf.Type.Kind() == reflect.Pointer {
					d.Ty = 'P'
				}
				d.Ref = add(tf)
			case tf == c15ValueType:
				d.Ty = 'V'
			case tf.Kind() == reflect.Map && tf.Key().Kind() == reflect.String:
				d.Ty = 'M'
				if c15Implements(tf.Key(), c15MethodIfaces...) {
					d.Ty = 'K'
				}
			default:
				d.Ty = 'O'
			}
		}
		g.Structs[id] = decls
		return id
	}
	add(root)
	return g
}

func (g *c15Graph) desc() string {
	var sb strings.Builder
	sb.WriteString(strconv.Itoa(len(g.Structs)))
	for _, ds := range g.Structs {
		sb.WriteByte(' ')
		sb.WriteString(strconv.Itoa(len(ds)))
		for _, d := range ds {
			bits := 0
			for i, b := range []bool{d.Exported, d.Anonymous, d.HasTag, d.TagDash, d.TagErr, d.O.Embed, d.O.Omitzero, d.O.Omitempty, d.O.String, d.O.Format != "", d.Methods, d.IsZeroer} {
				if b {
					bits |= 1 << i
				}
			}
			name := "*"
			if d.O.HasName {
				name = hx([]byte(d.O.Name))
			}
			ty := string(d.Ty)
			if d.Ty == 'S' || d.Ty == 'P' {
				ty += strconv.Itoa(d.Ref)
			}
			fmt.Fprintf(&sb, " %s %d %s %d %s", hx([]byte(d.GoName)), bits, name, d.O.Casing, ty)
		}
	}
	return sb.String()
}

// ---------------------------------------------------------------------------------------------------
// the documented rule (doc.go "JSON Representation of Go structs"), independent of fields.go

type c15Cand struct {
	Path   []int
	Name   string
	Tagged bool
	D      *c15Decl
}

func (c *c15Cand) key() string { return fmt.Sprint(c.Path) }

type c15RuleResult struct {
	Winners                         []*c15Cand // marshal order
	All                             []*c15Cand
	Fallback                        *c15Cand
	DocErr                          string // a documented reason why the type is invalid ("" if none)
	Shadowed, TieBroken, TieDropped int    // names decided by depth / by the explicit name / dropped
	DupQuirk                        bool   // some struct with embedded struct children is reached twice at its first depth
}

func c15PathLess(a, b []int) bool {
	for i := 0; i < len(a) && i < len(b); i++ {
		if a[i] != b[i] {
			return a[i] < b[i]
		}
	}
	return len(a) < len(b)
}

func c15Ignored(d *c15Decl) bool { return d.TagDash || (!d.Exported && !d.Anonymous) }
func c15Embedded(d *c15Decl) bool {
	return d.O.Embed || (d.Anonymous && !d.O.HasName && (d.Ty == 'S' || d.Ty == 'P'))
}

func c15Rule(g *c15Graph) *c15RuleResult {
	r := &c15RuleResult{}
	reach := map[int][]int{}
	var fbs []*c15Cand
	docErr := func(s string) {
		if r.DocErr == "" {
			r.DocErr = s
		}
	}
	var walk func(sid int, path []int, onPath map[int]bool)
	walk = func(sid int, path []int, onPath map[int]bool) {
		names := map[string]bool{}
		nfb := 0
		for i := range g.Structs[sid] {
			d := &g.Structs[sid][i]
			if !d.Exported && !d.Anonymous && d.HasTag && !d.TagDash {
				docErr("unexported field with json tag")
			}
			if c15Ignored(d) {
				continue
			}
			if d.TagErr {
				docErr("malformed tag")
			}
			p := append(append([]int{}, path...), i)
			if c15Embedded(d) {
				if d.O.HasName || d.O.Omitzero || d.O.Omitempty || d.O.String || d.O.Casing != 0 || d.O.Format != "" {
					docErr("embed with other options")
				}
				switch d.Ty {
				case 'S', 'P':
					if d.Methods {
						docErr("embedded struct with JSON methods")
					}
					reach[d.Ref] = append(reach[d.Ref], len(p))
					if !onPath[d.Ref] {
						onPath[d.Ref] = true
						walk(d.Ref, p, onPath)
						delete(onPath, d.Ref)
					}
				case 'V', 'M':
					if !d.Exported {
						docErr("unexported fallback")
					}
					nfb++
					fbs = append(fbs, &c15Cand{Path: p, Name: d.O.Name, D: d})
				default:
					docErr("embed of invalid type")
				}
				continue
			}
			if !d.Exported && !(d.Ty == 'S' || d.Ty == 'P') {
				docErr("unexported embedded non-struct")
			}
			if d.Anonymous && !d.O.HasName {
				docErr("embedded non-struct without name")
			}
			if names[d.O.Name] {
				docErr("duplicate name in one struct")
			}
			names[d.O.Name] = true
			r.All = append(r.All, &c15Cand{Path: p, Name: d.O.Name, Tagged: d.O.HasName, D: d})
		}
		if nfb > 1 {
			docErr("two fallbacks in one struct")
		}
	}
	walk(0, nil, map[int]bool{0: true})

	byName := map[string][]*c15Cand{}
	for _, c := range r.All {
		byName[c.Name] = append(byName[c.Name], c)
	}
	for _, cs := range byName {
		min := len(cs[0].Path)
		for _, c := range cs {
			if len(c.Path) < min {
				min = len(c.Path)
			}
		}
		var at, tagged []*c15Cand
		for _, c := range cs {
			if len(c.Path) == min {
				at = append(at, c)
				if c.Tagged {
					tagged = append(tagged, c)
				}
			}
		}
		switch {
		case len(at) == 1:
			r.Winners = append(r.Winners, at[0])
			if len(cs) > 1 {
				r.Shadowed++
			}
		case len(tagged) == 1:
			r.Winners = append(r.Winners, tagged[0])
			r.TieBroken++
		default:
			r.TieDropped++
		}
	}
	sort.Slice(r.Winners, func(i, j int) bool { return c15PathLess(r.Winners[i].Path, r.Winners[j].Path) })
	if len(fbs) > 0 {
		min, cnt := len(fbs[0].Path), 0
		var first *c15Cand
		for _, f := range fbs {
			if len(f.Path) < min {
				min = len(f.Path)
			}
		}
		for _, f := range fbs {
			if len(f.Path) == min {
				cnt++
				if first == nil {
					first = f
				}
			}
		}
		if cnt == 1 {
			r.Fallback = first
		}
	}
	for sid, depths := range reach {
		min, cnt := depths[0], 0
		for _, d := range depths {
			if d < min {
				min = d
			}
		}
		for _, d := range depths {
			if d == min {
				cnt++
			}
		}
		if sid == 0 {
			cnt++ // the root itself is an occurrence at depth 0
		}
		if cnt >= 2 {
			for i := range g.Structs[sid] {
				d := &g.Structs[sid][i]
				if !c15Ignored(d) && c15Embedded(d) && (d.Ty == 'S' || d.Ty == 'P') {
					r.DupQuirk = true
				}
			}
		}
	}
	return r
}

func c15Strip(s string) string { return strings.NewReplacer("_", "", "-", "").Replace(s) }

// lookup per the documented matching rules.  kind: 'F' found, 'A' ambiguous, 'U' unknown.
func (r *c15RuleResult) lookup(name string, ci, csd, legacy bool) (byte, *c15Cand) {
	for _, w := range r.Winners {
		if w.Name == name {
			return 'F', w
		}
	}
	var ms []*c15Cand
	for _, w := range r.Winners {
		if w.D.O.Casing == 1 || (ci && w.D.O.Casing != 2) {
			ok := strings.EqualFold(c15Strip(w.Name), c15Strip(name))
			if csd {
				ok = strings.EqualFold(w.Name, name)
			}
			if ok {
				ms = append(ms, w)
			}
		}
	}
	switch {
	case len(ms) == 0:
		return 'U', nil
	case len(ms) == 1:
		return 'F', ms[0]
	case !legacy:
		return 'A', nil
	}
	sort.Slice(ms, func(i, j int) bool { // breadth-first order
		if len(ms[i].Path) != len(ms[j].Path) {
			return len(ms[i].Path) < len(ms[j].Path)
		}
		return c15PathLess(ms[i].Path, ms[j].Path)
	})
	return 'F', ms[0]
}

// ---------------------------------------------------------------------------------------------------
// values

func c15SetNonZero(v reflect.Value, n int, depth int) bool {
	if depth > 4 {
		return false
	}
	switch v.Type() {
	case reflect.TypeFor[time.Time]():
		if v.CanSet() {
			v.Set(reflect.ValueOf(time.Unix(int64(1700000000+n), 0).UTC()))
			return true
		}
		return false
	case reflect.TypeFor[C15ZStruct](): // never A == B, which would be IsZero
		if v.CanSet() {
			v.Set(reflect.ValueOf(C15ZStruct{n%100 + 1, n%100 + 2}))
			return true
		}
		return false
	case reflect.TypeFor[C15ZPtrRecv]():
		if v.CanSet() {
			v.Set(reflect.ValueOf(C15ZPtrRecv{n%100 + 10}))
			return true
		}
		return false
	}
	if v.Type() == c15ValueType {
		if v.CanSet() {
			v.SetBytes([]byte(`{"q":` + strconv.Itoa(n%100+1) + `}`))
			return true
		}
		return false
	}
	switch v.Kind() {
	case reflect.Int, reflect.Int8, reflect.Int16, reflect.Int32, reflect.Int64:
		if v.CanSet() {
			v.SetInt(int64(n%100 + 1))
			return true
		}
	case reflect.Uint, reflect.Uint8, reflect.Uint16, reflect.Uint32, reflect.Uint64:
		if v.CanSet() {
			v.SetUint(uint64(n%100 + 1))
			return true
		}
	case reflect.Float32, reflect.Float64:
		if v.CanSet() {
			v.SetFloat(float64(n%100) + 0.5)
			return true
		}
	case reflect.String:
		if v.CanSet() {
			v.SetString("s" + strconv.Itoa(n))
			return true
		}
	case reflect.Bool:
		if v.CanSet() {
			v.SetBool(true)
			return true
		}
	case reflect.Slice:
		if v.CanSet() {
			s := reflect.MakeSlice(v.Type(), 1, 1)
			c15SetNonZero(s.Index(0), n, depth+1)
			v.Set(s)
			return true
		}
	case reflect.Map:
		if v.CanSet() && v.Type().Key().Kind() == reflect.String {
			m := reflect.MakeMap(v.Type())
			e := reflect.New(v.Type().Elem()).Elem()
			c15SetNonZero(e, n, depth+1)
			m.SetMapIndex(reflect.ValueOf("zq").Convert(v.Type().Key()), e)
			v.Set(m)
			return true
		}
	case reflect.Pointer:
		if v.CanSet() {
			p := reflect.New(v.Type().Elem())
			c15SetNonZero(p.Elem(), n, depth+1)
			v.Set(p)
			return true
		}
	case reflect.Interface:
		if v.CanSet() && v.NumMethod() == 0 {
			v.Set(reflect.ValueOf(n%100 + 1))
			return true
		}
	case reflect.Struct:
		any := false
		for i := 0; i < v.NumField(); i++ {
			if c15SetNonZero(v.Field(i), n, depth+1) {
				any = true
			}
		}
		return any
	case reflect.Array:
		any := false
		for i := 0; i < v.Len(); i++ {
			if c15SetNonZero(v.Index(i), n, depth+1) {
				any = true
			}
		}
		return any
	}
	return false
}

// c15Field walks an index path through (pointers to) structs; alloc allocates nil pointers when it can.
func c15Field(v reflect.Value, path []int, alloc bool) (reflect.Value, bool) {
	for k, i := range path {
		if k > 0 && v.Kind() == reflect.Pointer {
			if v.IsNil() {
				if !alloc || !v.CanSet() {
					return reflect.Value{}, false
				}
				v.Set(reflect.New(v.Type().Elem()))
			}
			v = v.Elem()
		}
		v = v.Field(i)
	}
	return v, true
}

type c15Member struct {
	Name string
	Raw  string
}

func c15Members(b []byte) ([]c15Member, bool) {
	dec := jsontext.NewDecoder(bytes.NewReader(b), jsontext.AllowDuplicateNames(true))
	tok, err := dec.ReadToken()
	if err != nil || tok.Kind() != '{' {
		return nil, false
	}
	var ms []c15Member
	for dec.PeekKind() != '}' {
		tok, err := dec.ReadToken()
		if err != nil {
			return nil, false
		}
		name := tok.String()
		val, err := dec.ReadValue()
		if err != nil {
			return nil, false
		}
		ms = append(ms, c15Member{name, string(val)})
	}
	return ms, true
}

// ---------------------------------------------------------------------------------------------------
// generator of struct type graphs (reflect.StructOf)

var (
	c15GoNames   = []string{"A", "B", "C", "Ab", "AB", "A_b", "X", "Y", "Name", "NAME", "Na_me", "K", "S", "Id", "ID", "É", "Ab_", "D", "E", "Z", "W", "Kk", "Ss"}
	c15JSONNames = []string{"a", "A", "b", "B", "ab", "Ab", "AB", "a_b", "a-b", "A_B", "x", "X", "name", "Name", "NAME", "na_me", "na-me",
		"k", "K", "\u212a", "s", "S", "\u017f", "é", "É", "id", "ID", "i_d", "_", "__", "a b", "0", "ß", "\u1e9e", "µ", "\u039c", "å", "\u212b", "中"}
	c15LeafTypes = []reflect.Type{reflect.TypeFor[int](), reflect.TypeFor[int](), reflect.TypeFor[int](), reflect.TypeFor[int](), reflect.TypeFor[string](), reflect.TypeFor[bool](),
		reflect.TypeFor[[]int](), reflect.TypeFor[map[string]int](), reflect.TypeFor[*int](), reflect.TypeFor[any](), reflect.TypeFor[float64](), reflect.TypeFor[struct{ Z int }](), reflect.TypeFor[int64](),
		reflect.TypeFor[C15ZNeg](), reflect.TypeFor[time.Time](), reflect.TypeFor[*C15ZNeg](), reflect.TypeFor[C15ZStruct](), reflect.TypeFor[C15ZPtrRecv]()}
	c15FbTypes = []reflect.Type{reflect.TypeFor[jsontext.Value](), reflect.TypeFor[map[string]int](), reflect.TypeFor[map[string]any](), reflect.TypeFor[*jsontext.Value]()}
)

func c15Numeric(t reflect.Type) bool {
	switch t.Kind() {
	case reflect.Int, reflect.Int64, reflect.Float64:
		return true
	}
	return false
}

// c15GenType builds one root struct type; ok=false when reflect.StructOf refuses the shape.
func c15GenType(rng *rand.Rand, c *Ctx) (t reflect.Type, ok bool) {
	n := 1 + rng.IntN(6)
	types := make([]reflect.Type, n)
	big := rng.IntN(25) == 0
	for i := n - 1; i >= 0; i-- {
		nf := rng.IntN(7)
		if rng.IntN(3) == 0 {
			nf = rng.IntN(3)
		}
		isBig := big && (i == 0 || (i == n-1 && rng.IntN(2) == 0))
		if isBig {
			nf = 60 + rng.IntN(85)
		}
		var fields []reflect.StructField
		used := map[string]bool{}
		hasFb := false
		bigRefs := 0
		goName := func(k int) string {
			if !isBig {
				for try := 0; try < 3; try++ {
					s := c15GoNames[rng.IntN(len(c15GoNames))]
					if try == 0 && rng.IntN(2) == 0 {
						s = c15GoNames[rng.IntN(8)]
					}
					if !used[s] {
						used[s] = true
						return s
					}
				}
			}
			s := "F" + strconv.Itoa(k)
			used[s] = true
			return s
		}
		for k := 0; k < nf; k++ {
			var sf reflect.StructField
			var opts []string
			name := ""
			cat := rng.IntN(100)
			if isBig && (cat >= 8 || bigRefs >= 2) {
				cat = 99
			}
			switch {
			case (cat < 28 || (cat < 40 && k < 2 && n > 2)) && i < n-1: // struct reference
				j := i + 1
				if rng.IntN(3) == 0 {
					j = i + 1 + rng.IntN(n-1-i)
				}
				sf.Type = types[j]
				if rng.IntN(3) == 0 {
					sf.Type = reflect.PointerTo(sf.Type)
				}
				sf.Name = goName(k)
				m := rng.IntN(20)
				if isBig {
					bigRefs++
					m = rng.IntN(15)
				}
				switch {
				case m < 11:
					sf.Anonymous = true
				case m < 15:
					opts = append(opts, "embed")
				case m < 16:
					sf.Anonymous = true
					name = c15JSONNames[rng.IntN(len(c15JSONNames))]
				case m < 17:
					sf.Anonymous = true
					opts = append(opts, "omitzero")
				case m < 18:
					name = c15JSONNames[rng.IntN(len(c15JSONNames))]
					opts = append(opts, "embed")
				default: // plain nested struct
				}
			case cat < 31 && !hasFb: // fallback
				hasFb = rng.IntN(8) != 0
				sf.Type = c15FbTypes[rng.IntN(len(c15FbTypes))]
				sf.Name = goName(k)
				opts = append(opts, "embed")
				if rng.IntN(12) == 0 {
					opts = append(opts, "omitempty")
				}
			case cat < 37: // unexported leaf
				sf.Type = reflect.TypeFor[int]()
				sf.Name = "u" + strconv.Itoa(k)
				sf.PkgPath = "example.com/p"
				if rng.IntN(6) == 0 {
					name = "u"
				} else if rng.IntN(4) == 0 {
					name = "-"
				}
			case cat < 40: // ignored
				sf.Type = reflect.TypeFor[int]()
				sf.Name = goName(k)
				name = "-"
			default: // leaf
				sf.Type = c15LeafTypes[rng.IntN(len(c15LeafTypes))]
				sf.Name = goName(k)
				if rng.IntN(2) == 0 {
					name = c15JSONNames[rng.IntN(len(c15JSONNames))]
					if rng.IntN(3) == 0 {
						name = c15GoNames[rng.IntN(8)] // collide with untagged fields
					}
					if isBig {
						name = []string{"n", "N", "n_", "m-"}[k%4] + strconv.Itoa(k/2) // unique, with folded collisions
					}
				}
				if rng.IntN(5) == 0 {
					opts = append(opts, "omitzero")
				}
				if rng.IntN(5) == 0 {
					opts = append(opts, "omitempty")
				}
				if rng.IntN(5) == 0 && c15Numeric(sf.Type) {
					opts = append(opts, "string")
				}
				switch rng.IntN(12) {
				case 0, 1:
					opts = append(opts, "case:ignore")
				case 2:
					opts = append(opts, "case:strict")
				}
				weird := rng.IntN(60)
				if isBig {
					weird = 10 + rng.IntN(2000)
				}
				switch weird {
				case 0:
					opts = append(opts, "format:x")
				case 1:
					opts = append(opts, "unknownopt")
				case 2:
					opts = append(opts, []string{"omitEmpty", "case", "case:foo", "", "omitzero", "'string'", "format:''", "omit_zero", "String", "case:strict"}[rng.IntN(10)])
				}
			}
			rng.Shuffle(len(opts), func(a, b int) { opts[a], opts[b] = opts[b], opts[a] })
			tag := name
			for _, o := range opts {
				tag += "," + o
			}
			if name == "-" && len(opts) == 0 || tag != "" || rng.IntN(30) == 0 {
				sf.Tag = reflect.StructTag(`json:` + strconv.Quote(tag))
			}
			fields = append(fields, sf)
		}
		var st reflect.Type
		if p := guard(func() { st = reflect.StructOf(fields) }); p != nil {
			c.Hit("gen/structof-refused")
			return nil, false
		}
		types[i] = st
	}
	return types[0], true
}

// ---------------------------------------------------------------------------------------------------

type c15Case struct {
	t    reflect.Type
	g    *c15Graph
	rule *c15RuleResult
	desc string
	src  string
}

func (cs *c15Case) detail(extra map[string]any) map[string]any {
	m := map[string]any{"type": trunc(cs.t.String(), 600), "graph": trunc(cs.desc, 600), "source": cs.src}
	for k, v := range extra {
		m[k] = v
	}
	return m
}

func c15OptBits(hasName bool, casing int, embed, oz, oe, str, format bool) int {
	b := casing * 2
	for i, x := range []bool{hasName, false, false, embed, oz, oe, str, format} {
		if x {
			b |= 1 << i
		}
	}
	return b
}

func c15ShowIndex(ix []int) string {
	if len(ix) == 0 {
		return "-"
	}
	s := make([]string, len(ix))
	for i, x := range ix {
		s[i] = strconv.Itoa(x)
	}
	return strings.Join(s, ".")
}

// implFlatten renders VerifStructFields(t) in the oracle's format (without the FMT field).
func c15ImplFlatten(c *Ctx, cs *c15Case) (line string, fields []json.VerifField, fb *json.VerifField, ok bool) {
	var err error
	var byFolded map[string][]int
	if p := guard(func() { fields, fb, byFolded, err = json.VerifStructFields(cs.t) }); p != nil {
		c.Panic("VerifStructFields", []byte(cs.desc), p, cs.detail(nil))
		return "", nil, nil, false
	}
	if err != nil {
		return "E", nil, nil, true
	}
	var sb strings.Builder
	fmt.Fprintf(&sb, "OK %d ", len(fields))
	ids := map[int]string{}
	for _, f := range fields {
		fmt.Fprintf(&sb, "%d:%s:%s:%d ", f.ID, c15ShowIndex(f.Index), hx([]byte(f.Name)), c15OptBits(f.HasName, int(f.Casing), f.Embed, f.Omitzero, f.Omitempty, f.String, f.Format != ""))
		ids[f.ID] = f.Name
	}
	sb.WriteString("FB=")
	if fb != nil {
		sb.WriteString(c15ShowIndex(fb.Index))
	} else {
		sb.WriteString("-")
	}
	// the folded index: keys are foldName(name), values ascending ids, every field in exactly one bucket
	cnt := 0
	for k, v := range byFolded {
		for i, id := range v {
			cnt++
			if string(json.VerifFoldName([]byte(ids[id]))) != k || (i > 0 && v[i-1] >= id) {
				c.Violate("folded-index", "VerifStructFields", []byte(cs.desc), cs.detail(map[string]any{"key": k, "ids": v}))
			}
		}
	}
	if cnt != len(fields) {
		c.Violate("folded-index", "VerifStructFields", []byte(cs.desc), cs.detail(map[string]any{"count": cnt}))
	}
	return sb.String(), fields, fb, true
}

var c15FlagCombos = []int{0, 1, 2, 3, 4, 5, 7}

func c15LookupOpts(fl int, reject bool) []json.Options {
	return []json.Options{json.MatchCaseInsensitiveNames(fl&1 != 0), jsonv1.MatchCaseSensitiveDelimiter(fl&2 != 0),
		jsonv1.ReportErrorsWithLegacySemantics(fl&4 != 0), json.RejectUnknownMembers(reject)}
}

func c15Variants(rng *rand.Rand, s string) []string {
	var out []string
	swap := func(r rune) rune {
		if unicode.IsUpper(r) {
			return unicode.ToLower(r)
		}
		return unicode.ToUpper(r)
	}
	out = append(out, strings.Map(swap, s), strings.ToUpper(s), strings.ToLower(s), c15Strip(s))
	if len(s) > 0 {
		i := rng.IntN(len(s) + 1)
		for !utf8.RuneStart(append([]byte(s), 'x')[i]) {
			i--
		}
		out = append(out, s[:i]+"_"+s[i:], s[:i]+"-"+s[i:], "_"+strings.ToUpper(s)+"-")
	}
	out = append(out, strings.NewReplacer("k", "\u212a", "K", "\u212a", "s", "\u017f", "S", "\u017f").Replace(s))
	return out
}

var c15SampleCache sync.Map // reflect.Type,string? -> string

func c15SampleJSON(t reflect.Type, str bool) string {
	type key struct {
		t reflect.Type
		s bool
	}
	if v, ok := c15SampleCache.Load(key{t, str}); ok {
		return v.(string)
	}
	s := reflect.New(t).Elem()
	c15SetNonZero(s, 6, 0)
	var b []byte
	var err error
	guard(func() { b, err = json.Marshal(s.Interface(), json.StringifyNumbers(str)) })
	if z, _ := json.Marshal(reflect.New(t).Elem().Interface(), json.StringifyNumbers(str)); err != nil || bytes.Equal(z, b) || !c15SetNonZero(reflect.New(t).Elem(), 6, 0) {
		b = nil // a value that cannot be told from the zero value through JSON: unobservable
	}
	c15SampleCache.Store(key{t, str}, string(b))
	return string(b)
}

func c15IsUnknownErr(err error) bool { return errors.Is(err, json.ErrUnknownName) }

// which candidate leaves are non-zero
func c15SetLeaves(v reflect.Value, rule *c15RuleResult) []string {
	var out []string
	for _, cd := range rule.All {
		if f, ok := c15Field(v, cd.Path, false); ok && !f.IsZero() {
			out = append(out, cd.key())
		}
	}
	sort.Strings(out)
	return out
}

func c15V1Expressible(g *c15Graph) bool {
	for _, ds := range g.Structs {
		for _, d := range ds {
			if d.TagDash {
				continue
			}
			if !d.Exported || d.O.Embed || d.O.Casing != 0 || d.O.Format != "" || d.TagErr || d.Ty == 'V' {
				return false
			}
			if d.O.HasName {
				for _, r := range d.O.Name {
					if !(unicode.IsLetter(r) || unicode.IsDigit(r) || strings.ContainsRune("_-", r)) {
						return false
					}
				}
			}
			for _, o := range strings.Split(d.Tag, ",")[1:] {
				if o != "omitempty" && o != "string" && o != "omitzero" {
					return false
				}
			}
			if d.O.String && !c15Numeric(d.Typ) {
				return false
			}
		}
	}
	return true
}

// ---------------------------------------------------------------------------------------------------

func runC15(c *Ctx) {
	c15Static(c)
	nGraphs := c.N(5000, 200000) // thorough: ~50 KB of permanent type data per graph (reflect + arshaler caches) bounds the count
	workers := 16
	per := (nGraphs + workers - 1) / workers
	var wg sync.WaitGroup
	for w := 0; w < workers; w++ {
		wg.Add(1)
		go func(w int) {
			defer wg.Done()
			rng := c.SubRng(uint64(w))
			or := c.NewOracle()
			var batch []*c15Case
			flush := func() {
				c15RunBatch(c, or, rng, batch)
				batch = batch[:0]
			}
			if w == 0 {
				for _, t := range c15Corpus {
					batch = append(batch, c15NewCase(t, "corpus"))
				}
				flush()
			}
			for i := 0; i < per; i++ {
				t, ok := c15GenType(rng, c)
				if !ok {
					continue
				}
				batch = append(batch, c15NewCase(t, "generated"))
				if len(batch) >= 200 {
					flush()
				}
			}
			flush()
		}(w)
	}
	wg.Wait()
}

func c15NewCase(t reflect.Type, src string) *c15Case {
	cs := &c15Case{t: t, src: src}
	cs.g = c15GraphOf(t)
	cs.rule = c15Rule(cs.g)
	cs.desc = cs.g.desc()
	return cs
}

func c15RunBatch(c *Ctx, or *Oracle, rng *rand.Rand, batch []*c15Case) {
	if len(batch) == 0 {
		return
	}
	// names to look up per case
	names := make([][]string, len(batch))
	var lines []string
	for i, cs := range batch {
		set := map[string]bool{}
		var ns []string
		add := func(s string) {
			if !set[s] && utf8.ValidString(s) && len(ns) < 40 {
				set[s] = true
				ns = append(ns, s)
			}
		}
		all := cs.rule.All
		for k := 0; k < len(all) && k < 12; k++ {
			cd := all[k]
			if len(all) > 12 {
				cd = all[rng.IntN(len(all))]
			}
			add(cd.Name)
			vs := c15Variants(rng, cd.Name)
			add(vs[rng.IntN(len(vs))])
			add(vs[rng.IntN(len(vs))])
		}
		add("zzz")
		add("")
		add("un_known-Member")
		names[i] = ns
		hexes := make([]string, len(ns))
		for k, s := range ns {
			hexes[k] = hx([]byte(s))
		}
		lines = append(lines, fmt.Sprintf("fields full 0 %d %s %s", len(ns), strings.Join(hexes, " "), cs.desc))
	}
	var ans []string
	if or != nil {
		ans = or.Ask(lines)
	}
	for i, cs := range batch {
		var oa []string
		if ans != nil {
			oa = strings.Split(ans[i], " ;")
			if strings.HasPrefix(ans[i], "ERR") || len(oa) != 1+len(c15FlagCombos) {
				fail("oracle: %q on %s", trunc(ans[i], 200), cs.desc)
			}
		}
		c15CheckCase(c, rng, cs, names[i], oa)
	}
}

func c15CheckCase(c *Ctx, rng *rand.Rand, cs *c15Case, names []string, oa []string) {
	g, rule := cs.g, cs.rule
	nfields := 0
	maxDepth := 0
	for _, cd := range rule.All {
		nfields++
		if len(cd.Path) > maxDepth {
			maxDepth = len(cd.Path)
		}
	}
	c.Hit(fmt.Sprintf("graph/structs=%d", len(g.Structs)))
	c.Hit(fmt.Sprintf("graph/depth=%d", maxDepth))
	switch {
	case nfields > 128:
		c.Hit("graph/candidates>128")
	case nfields > 64:
		c.Hit("graph/candidates>64")
	case nfields > 8:
		c.Hit("graph/candidates>8")
	default:
		c.Hit("graph/candidates<=8")
	}
	if len(rule.Winners) > 128 {
		c.Hit("graph/winners>128")
	} else if len(rule.Winners) > 64 {
		c.Hit("graph/winners>64")
	}
	if len(rule.All) > len(rule.Winners) {
		c.Hit("graph/has-dropped-or-shadowed")
	}
	if rule.Fallback != nil {
		c.Hit("graph/fallback")
	}
	if rule.Shadowed > 0 {
		c.Hit("graph/name-decided-by-depth")
	}
	if rule.TieBroken > 0 {
		c.Hit("graph/tie-broken-by-explicit-name")
	}
	if rule.TieDropped > 0 {
		c.Hit("graph/tie-all-dropped")
	}
	if rule.DupQuirk {
		c.Hit("graph/dup-embed-shape")
	}

	// ---- (a) correspondence: makeStructFields vs the Lean model
	impl, ifields, ifb, ok := c15ImplFlatten(c, cs)
	if !ok {
		return
	}
	c.Case("flatten "+cs.desc, len(rule.All) > len(rule.Winners) || maxDepth > 1)
	var oracleIDs map[int]string // id -> path key, from the oracle
	if oa != nil {
		o := oa[0]
		if strings.HasPrefix(o, "ERR") {
			fail("oracle: %s on %s", o, cs.desc)
		}
		if i := strings.Index(o, " FMT="); i >= 0 {
			o = o[:i]
		}
		if strings.HasPrefix(o, "E ") {
			c.Hit("model/err/" + o[2:])
			if nfields > 64 {
				c.Hit("model/big-err/" + o[2:])
			}
			o = "E"
		}
		if strings.Join(strings.Fields(o), " ") != strings.Join(strings.Fields(impl), " ") {
			c.Violate("corr-flatten", "makeStructFields", []byte(cs.desc), cs.detail(map[string]any{"impl": trunc(impl, 800), "model": trunc(oa[0], 800)}))
			return
		}
	}
	if impl == "E" {
		c.Hit("impl/type-error")
		// documented invalid shapes must be errors; the converse is covered by the correspondence
		return
	}
	if rule.DocErr != "" {
		c.Violate("doc-error-accepted", "makeStructFields", []byte(cs.desc), cs.detail(map[string]any{"documented": rule.DocErr}))
		return
	}
	c.Hit("impl/type-ok")

	// ---- (b1) resolution = documented rule (names, index paths, order, fallback), via the hook
	implKeys := make([]string, len(ifields))
	idPath := map[int]string{}
	for i, f := range ifields {
		implKeys[i] = fmt.Sprint(f.Index) + "=" + f.Name
		idPath[f.ID] = fmt.Sprint(f.Index)
	}
	oracleIDs = idPath // equal to the model's by the correspondence above
	ruleKeys := make([]string, len(rule.Winners))
	for i, w := range rule.Winners {
		ruleKeys[i] = w.key() + "=" + w.Name
	}
	dupKept := false
	if strings.Join(implKeys, " ") != strings.Join(ruleKeys, " ") {
		// Known finding: a struct type embedded twice at equal depth keeps the fields of ITS embedded structs.
		// Classified as such only if (1) the shape is present, (2) the implementation only has EXTRA fields,
		// every one of them below a struct reached twice at its first depth, and (3) after deleting the
		// extras and everything the rule says they cannot shadow, the remainder agrees — (3) is approximated
		// by requiring agreement on all names not carried by an extra field.
		extraNames := map[string]bool{}
		rk := map[string]bool{}
		for _, k := range ruleKeys {
			rk[k] = true
		}
		for _, k := range implKeys {
			if !rk[k] {
				extraNames[k[strings.Index(k, "=")+1:]] = true
			}
		}
		filter := func(keys []string) string {
			var out []string
			for _, k := range keys {
				if !extraNames[k[strings.Index(k, "=")+1:]] {
					out = append(out, k)
				}
			}
			return strings.Join(out, " ")
		}
		if rule.DupQuirk && len(extraNames) > 0 && filter(implKeys) == filter(ruleKeys) && c15ExtrasUnderDup(g, ifields, rk) {
			dupKept = true
			c.Hit("finding/dup-embed-kept")
			c.Violate("dup-embed-kept", "makeStructFields", nil, cs.detail(map[string]any{"impl": trunc(strings.Join(implKeys, " "), 600), "rule": trunc(strings.Join(ruleKeys, " "), 600)}))
		} else {
			c.Violate("resolution-mismatch", "makeStructFields", []byte(cs.desc), cs.detail(map[string]any{"impl": trunc(strings.Join(implKeys, " "), 800), "rule": trunc(strings.Join(ruleKeys, " "), 800)}))
			return
		}
	}
	if !dupKept {
		fbI, fbR := "-", "-"
		if ifb != nil {
			fbI = fmt.Sprint(ifb.Index)
		}
		if rule.Fallback != nil {
			fbR = rule.Fallback.key()
		}
		if fbI != fbR && rule.DupQuirk && rule.Fallback == nil && ifb != nil && c15ExtrasUnderDup(g, []json.VerifField{{Index: ifb.Index, Name: "\x00fallback"}}, map[string]bool{}) {
			// same known finding, seen through the fallback: the second copy of the struct that holds it is never visited
			c.Hit("finding/dup-embed-kept-fallback")
			c.Violate("dup-embed-kept", "makeStructFields", nil, cs.detail(map[string]any{"implFallback": fbI, "ruleFallback": fbR}))
			return
		}
		if fbI != fbR {
			c.Violate("fallback-mismatch", "makeStructFields", []byte(cs.desc), cs.detail(map[string]any{"impl": fbI, "rule": fbR}))
			return
		}
		// ids: 0..n-1 in breadth-first order
		type pr struct {
			id   int
			path []int
		}
		var prs []pr
		for _, f := range ifields {
			prs = append(prs, pr{f.ID, f.Index})
		}
		sort.Slice(prs, func(i, j int) bool { return prs[i].id < prs[j].id })
		for i := range prs {
			if prs[i].id != i || (i > 0 && (len(prs[i-1].path) > len(prs[i].path) || (len(prs[i-1].path) == len(prs[i].path) && !c15PathLess(prs[i-1].path, prs[i].path)))) {
				c.Violate("ids-not-bfs", "makeStructFields", []byte(cs.desc), cs.detail(nil))
				break
			}
		}
	}
	if dupKept {
		return // the remaining predicates assume the rule's winners
	}
	for _, ds := range g.Structs {
		for _, d := range ds {
			if d.O.Format != "" && !c15Ignored(&d) {
				c.Hit("skip/format-option")
				return
			}
		}
	}
	c15CheckMarshal(c, rng, cs)
	c15CheckLookup(c, rng, cs, names, oa, oracleIDs)
	c15CheckOmit(c, rng, cs)
}

// every implementation field that the rule does not have lies strictly below (at least two levels) a struct
// that the documented search reaches twice at its first depth
func c15ExtrasUnderDup(g *c15Graph, ifields []json.VerifField, ruleKeys map[string]bool) bool {
	// depths at which each struct id is reached (all embedding paths, cycle-cut), as in c15Rule
	reach := map[int][]int{}
	var walk func(sid, depth int, onPath map[int]bool)
	walk = func(sid, depth int, onPath map[int]bool) {
		for i := range g.Structs[sid] {
			d := &g.Structs[sid][i]
			if c15Ignored(d) || !c15Embedded(d) || !(d.Ty == 'S' || d.Ty == 'P') {
				continue
			}
			reach[d.Ref] = append(reach[d.Ref], depth+1)
			if !onPath[d.Ref] {
				onPath[d.Ref] = true
				walk(d.Ref, depth+1, onPath)
				delete(onPath, d.Ref)
			}
		}
	}
	walk(0, 0, map[int]bool{0: true})
	dup := map[int]bool{}
	for sid, ds := range reach {
		min, cnt := ds[0], 0
		for _, d := range ds {
			if d < min {
				min = d
			}
		}
		for _, d := range ds {
			if d == min {
				cnt++
			}
		}
		if cnt >= 2 {
			dup[sid] = true
		}
	}
	for _, f := range ifields {
		if ruleKeys[fmt.Sprint(f.Index)+"="+f.Name] {
			continue
		}
		// walk the index path; require a dup struct strictly above the field's own struct
		sid, under := 0, false
		for k, i := range f.Index {
			if k == len(f.Index)-1 {
				break
			}
			if dup[sid] && k > 0 {
				under = true
			}
			sid = g.Structs[sid][i].Ref
		}
		if !under {
			return false
		}
	}
	return true
}

func c15Fill(cs *c15Case, rng *rand.Rand, nilProb int) (v reflect.Value, reachable map[string]bool, expect map[string]string) {
	v = reflect.New(cs.t).Elem()
	reachable = map[string]bool{}
	expect = map[string]string{}
	// decide nil pointers first: visit candidates in order; a pointer on the path that is nil and chosen to stay nil blocks
	blocked := map[string]bool{}
	for n, cd := range cs.rule.All {
		// check prefixes
		skip := false
		for k := 1; k < len(cd.Path); k++ {
			pk := fmt.Sprint(cd.Path[:k])
			if b, ok := blocked[pk]; ok {
				if b {
					skip = true
					break
				}
				continue
			}
			f, ok := c15Field(v, cd.Path[:k], true)
			if !ok {
				skip = true
				blocked[pk] = true
				break
			}
			if f.Kind() == reflect.Pointer && f.IsNil() {
				if !f.CanSet() || (nilProb > 0 && rng.IntN(nilProb) == 0) {
					blocked[pk] = true
					skip = true
					break
				}
			}
			blocked[pk] = false
		}
		if skip {
			continue
		}
		f, ok := c15Field(v, cd.Path, true)
		if !ok {
			continue
		}
		reachable[cd.key()] = true
		if c15SetNonZero(f, n, 0) {
			if k := f.Kind(); k == reflect.Int || k == reflect.Int64 {
				s := strconv.FormatInt(f.Int(), 10)
				if cd.D.O.String {
					s = `"` + s + `"`
				}
				expect[cd.key()] = s
			}
		}
	}
	return v, reachable, expect
}

// some struct type of the graph other than the root (a nested, non-embedded struct value) is itself invalid
func c15NestedInvalid(g *c15Graph) bool {
	for _, t := range g.Types[1:] {
		var err error
		guard(func() { _, _, _, err = json.VerifStructFields(t) })
		if err != nil {
			return true
		}
	}
	return false
}

func c15CheckMarshal(c *Ctx, rng *rand.Rand, cs *c15Case) {
	rule := cs.rule
	for pass, nilProb := range []int{0, 3} {
		if pass == 1 && rng.IntN(2) == 0 {
			continue
		}
		v, reachable, expect := c15Fill(cs, rng, nilProb)
		var want []string
		for _, w := range rule.Winners {
			if reachable[w.key()] {
				want = append(want, w.Name)
			}
		}
		var b []byte
		var err error
		if p := guard(func() { b, err = json.Marshal(v.Addr().Interface()) }); p != nil {
			c.Panic("Marshal", []byte(cs.desc), p, cs.detail(nil))
			return
		}
		if err != nil && c15NestedInvalid(cs.g) {
			c.Hit("marshal/nested-struct-type-invalid")
			return
		}
		if err != nil {
			c.Hit("marshal/error")
			c.Violate("marshal-error", "Marshal", []byte(cs.desc), cs.detail(map[string]any{"err": fmt.Sprint(err)}))
			return
		}
		ms, ok := c15Members(b)
		if !ok {
			c.Violate("marshal-not-object", "Marshal", []byte(cs.desc), cs.detail(map[string]any{"out": trunc(string(b), 400)}))
			return
		}
		var got []string
		for _, m := range ms {
			got = append(got, m.Name)
		}
		c.Case("marshal "+cs.desc, len(want) > 1)
		if strings.Join(got, "\x00") != strings.Join(want, "\x00") {
			c.Violate("marshal-names", "Marshal", []byte(cs.desc), cs.detail(map[string]any{"got": trunc(fmt.Sprintf("%q", got), 600), "want": trunc(fmt.Sprintf("%q", want), 600), "nilpass": pass}))
			return
		}
		k := 0
		for _, w := range rule.Winners {
			if !reachable[w.key()] {
				continue
			}
			if e, ok := expect[w.key()]; ok && ms[k].Raw != e {
				c.Violate("marshal-value", "Marshal", []byte(cs.desc), cs.detail(map[string]any{"member": w.Name, "got": ms[k].Raw, "want": e}))
				return
			}
			k++
		}
		if pass == 0 {
			c.Hit("marshal/names-order-ok")
			// full object back in: no false duplicate (uintSet > 64), every winner restored
			if rule.Fallback == nil {
				nv := reflect.New(cs.t)
				var uerr error
				if p := guard(func() { uerr = json.Unmarshal(b, nv.Interface()) }); p != nil {
					c.Panic("Unmarshal", b, p, cs.detail(nil))
					return
				}
				unexpPtr := false
				for _, w := range rule.All {
					if !reachable[w.key()] {
						unexpPtr = true
					}
				}
				if uerr != nil && !unexpPtr {
					c.Violate("roundtrip-error", "Unmarshal", b, cs.detail(map[string]any{"err": fmt.Sprint(uerr)}))
					return
				}
				if uerr == nil {
					var b2 []byte
					guard(func() { b2, _ = json.Marshal(nv.Interface()) })
					if !bytes.Equal(b, b2) {
						c.Violate("roundtrip-differs", "Unmarshal", b, cs.detail(map[string]any{"again": trunc(string(b2), 400)}))
						return
					}
					c.Hit("roundtrip/ok")
					if len(ms) > 128 {
						c.Hit("roundtrip/ok members>128")
					} else if len(ms) > 64 {
						c.Hit("roundtrip/ok members>64")
					}
				}
			}
			// classic encoding/json: same names, same order
			if c15V1Expressible(cs.g) {
				var sb, vb []byte
				var serr, verr error
				if p := guard(func() { sb, serr = stdjson.Marshal(v.Addr().Interface()) }); p != nil {
					continue
				}
				if p := guard(func() { vb, verr = jsonv1.Marshal(v.Addr().Interface()) }); p != nil {
					c.Panic("v1.Marshal", []byte(cs.desc), p, cs.detail(nil))
					return
				}
				if serr != nil || verr != nil {
					c.Hit("v1/marshal-error")
					continue
				}
				sm, ok1 := c15Members(sb)
				vm, ok2 := c15Members(vb)
				if !ok1 || !ok2 {
					continue
				}
				var sn, vn []string
				for _, m := range sm {
					sn = append(sn, m.Name)
				}
				for _, m := range vm {
					vn = append(vn, m.Name)
				}
				c.Case("v1 "+cs.desc, len(sn) > 1)
				c.Hit("v1/compared")
				if strings.Join(sn, "\x00") != strings.Join(vn, "\x00") || strings.Join(sn, "\x00") != strings.Join(want, "\x00") {
					c.Violate("v1-names", "v1.Marshal", []byte(cs.desc), cs.detail(map[string]any{"stdlib": trunc(fmt.Sprintf("%q", sn), 500), "v1": trunc(fmt.Sprintf("%q", vn), 500), "rule": trunc(fmt.Sprintf("%q", want), 500)}))
					return
				}
			}
		} else {
			c.Hit("marshal/nil-embedded-ok")
		}
	}
}

func c15CheckLookup(c *Ctx, rng *rand.Rand, cs *c15Case, names []string, oa []string, idPath map[int]string) {
	rule := cs.rule
	// can the expected target be written at all (embedded pointer to unexported struct cannot be allocated)?
	probe := reflect.New(cs.t).Elem()
	for fi, fl := range c15FlagCombos {
		var oans []string
		if oa != nil {
			oans = strings.Split(oa[1+fi], " ")
			if len(oans) != len(names) {
				fail("oracle lookups: %q", oa[1+fi])
			}
		}
		for ni, name := range names {
			kind, w := rule.lookup(name, fl&1 != 0, fl&2 != 0, fl&4 != 0)
			// model vs rule
			if oans != nil {
				want := string(kind)
				got := oans[ni]
				if kind == 'F' {
					if got[0] == 'F' {
						id, _ := strconv.Atoi(got[1:])
						got = "F" + idPath[id]
					}
					want = "F" + w.key()
				}
				if got != want {
					c.Violate("corr-lookup-rule", "lookup", []byte(name), cs.detail(map[string]any{"flags": fl, "model": oans[ni], "rule": want}))
					return
				}
			}
			reject := rng.IntN(2) == 0
			val := "7"
			writable := true
			if kind == 'F' {
				val = c15SampleJSON(w.D.Typ, w.D.O.String)
				if val == "" {
					c.Hit("lookup/unobservable-leaf")
					continue
				}
				if _, ok := c15Field(probe, w.Path, true); !ok {
					writable = false
				}
			}
			nm, _ := jsontext.AppendQuote(nil, name)
			in := append(append(append([]byte(`{`), nm...), ':'), val...)
			in = append(in, '}')
			nv := reflect.New(cs.t)
			var err error
			if p := guard(func() { err = json.Unmarshal(in, nv.Interface(), c15LookupOpts(fl, reject)...) }); p != nil {
				c.Panic("Unmarshal", in, p, cs.detail(map[string]any{"flags": fl}))
				return
			}
			set := c15SetLeaves(nv.Elem(), rule)
			fbSet := false
			if rule.Fallback != nil {
				if f, ok := c15Field(nv.Elem(), rule.Fallback.Path, false); ok && !f.IsZero() {
					fbSet = true
				}
			}
			c.Case(fmt.Sprintf("lookup %d %q %s", fl, name, cs.desc), kind != 'U' || name != "zzz")
			bad := ""
			switch kind {
			case 'F':
				c.Hit("lookup/found")
				if !writable {
					c.Hit("lookup/found-unwritable")
					if err == nil {
						bad = "expected an error for an unallocatable embedded pointer"
					}
				} else if err != nil {
					bad = "unexpected error: " + fmt.Sprint(err)
				} else if len(set) != 1 || set[0] != w.key() || fbSet {
					bad = fmt.Sprintf("stored into %v, want %s", set, w.key())
				}
			case 'A':
				c.Hit("lookup/ambiguous")
				if err == nil || c15IsUnknownErr(err) || len(set) != 0 {
					bad = fmt.Sprintf("ambiguous name must be an error; err=%v set=%v", err, set)
				}
			case 'U':
				switch {
				case rule.Fallback != nil:
					c.Hit("lookup/unknown-to-fallback")
					fbWritable := true
					if _, ok := c15Field(probe, rule.Fallback.Path, true); !ok {
						fbWritable = false
					}
					if fbWritable && (err != nil || !fbSet || len(set) != 0) {
						bad = fmt.Sprintf("unknown member must go to the fallback; err=%v set=%v fb=%v", err, set, fbSet)
					}
				case reject:
					c.Hit("lookup/unknown-rejected")
					if err == nil || (fl&4 == 0 && !c15IsUnknownErr(err)) || len(set) != 0 {
						bad = fmt.Sprintf("unknown member must be rejected; err=%v set=%v", err, set)
					}
				default:
					c.Hit("lookup/unknown-ignored")
					if err != nil || len(set) != 0 {
						bad = fmt.Sprintf("unknown member must be ignored; err=%v set=%v", err, set)
					}
				}
			}
			if bad != "" {
				c.Violate("lookup-mismatch", "Unmarshal", in, cs.detail(map[string]any{"flags": fl, "reject": reject, "name": name, "why": bad}))
				return
			}
		}
	}
	c.Sample(map[string]any{"type": trunc(cs.t.String(), 300), "winners": len(rule.Winners), "candidates": len(rule.All), "names": len(names)})
}

var c15IsZeroIfaceT = reflect.TypeFor[interface{ IsZero() bool }]()

// c15DocZero: "zero as determined by the IsZero() bool method if present, otherwise based on whether the field
// is the zero Go value" (doc.go omitzero, options.go OmitZeroStructFields).  The method is looked for on the
// field's type and on its pointer (a field is addressable); a nil pointer, a nil interface and an interface
// holding a nil pointer have no receiver to ask and are zero.
func c15DocZero(f reflect.Value) bool {
	t := f.Type()
	onT, onPtr := t.Implements(c15IsZeroIfaceT), reflect.PointerTo(t).Implements(c15IsZeroIfaceT)
	if !onT && !onPtr {
		return f.IsZero()
	}
	switch f.Kind() {
	case reflect.Interface:
		if f.IsNil() || (f.Elem().Kind() == reflect.Pointer && f.Elem().IsNil()) {
			return true
		}
	case reflect.Pointer:
		if f.IsNil() {
			return true
		}
	}
	if onT {
		return f.Interface().(interface{ IsZero() bool }).IsZero()
	}
	a := reflect.New(t)
	a.Elem().Set(f)
	return a.Interface().(interface{ IsZero() bool }).IsZero()
}

// c15ZeroKind mirrors the type switch of fields.go:219-236 for the model's `omitz` op.
func c15ZeroKind(t reflect.Type) string {
	switch {
	case t.Kind() == reflect.Interface && t.Implements(c15IsZeroIfaceT):
		return "i"
	case t.Kind() == reflect.Pointer && t.Implements(c15IsZeroIfaceT):
		return "p"
	case t.Implements(c15IsZeroIfaceT):
		return "v"
	case reflect.PointerTo(t).Implements(c15IsZeroIfaceT):
		return "a"
	}
	return "n"
}

func c15LegacyEmpty(f reflect.Value) bool {
	switch f.Kind() {
	case reflect.Bool, reflect.Int, reflect.Int8, reflect.Int16, reflect.Int32, reflect.Int64, reflect.Uint, reflect.Uint8, reflect.Uint16, reflect.Uint32, reflect.Uint64,
		reflect.Float32, reflect.Float64, reflect.Pointer, reflect.Interface:
		return f.IsZero()
	case reflect.String, reflect.Map, reflect.Slice, reflect.Array:
		return f.Len() == 0
	}
	return false
}

// c15ZeroGrid: {no tag, omitzero, omitempty, both} x {OmitZeroStructFields} x {OmitEmptyWithLegacySemantics} x values on
// which IsZero and the zero Go value disagree (both directions), nil pointers/interfaces, passed by pointer and by value.
func c15ZeroGrid(c *Ctx, or *Oracle, rng *rand.Rand) {
	table := c15ZeroGridValues()
	rounds := c.N(40, 400)
	for ti, t := range c15ZeroGridTypes {
		for fl := 0; fl < 4; fl++ {
			ozf, legacy := fl&1 != 0, fl&2 != 0
			opts := []json.Options{json.OmitZeroStructFields(ozf), jsonv1.OmitEmptyWithLegacySemantics(legacy)}
			for k := 0; k < rounds; k++ {
				v := reflect.New(t).Elem()
				var want, lines, names []string
				var modelVals []int
				desc := fmt.Sprintf("%s ozf=%v legacy=%v:", t.Name(), ozf, legacy)
				for i := 0; i < t.NumField(); i++ {
					sf := t.Field(i)
					vals := table[sf.Name]
					idx := (k + i) % len(vals)
					if k >= 9 {
						idx = rng.IntN(len(vals))
					}
					f := v.Field(i)
					if vals[idx] != nil {
						f.Set(reflect.ValueOf(vals[idx]))
					}
					desc += fmt.Sprintf(" %s#%d", sf.Name, idx)
					tag, _ := sf.Tag.Lookup("json")
					o, _ := c15ParseTag(sf.Name, tag)
					zero := c15DocZero(f)
					legacyEmpty := c15LegacyEmpty(f)
					var enc []byte
					var err error
					if p := guard(func() { enc, err = json.Marshal(f.Interface(), opts...) }); p != nil || err != nil {
						fail("zero grid: cannot marshal field %s: %v %v", sf.Name, p, err)
					}
					jsonEmpty := false
					switch string(enc) {
					case "null", `""`, "{}", "[]":
						jsonEmpty = true
					}
					omit := ((o.Omitzero || ozf) && zero) || (o.Omitempty && legacy && legacyEmpty) || (o.Omitempty && !legacy && jsonEmpty)
					if !omit {
						want = append(want, sf.Name)
					}
					c.Hit(fmt.Sprintf("zerogrid/kind=%s docZero=%v goZero=%v", c15ZeroKind(sf.Type), zero, f.IsZero()))
					// model inputs
					vb := 0
					set := func(b bool, bit int) {
						if b {
							vb |= bit
						}
					}
					set(f.IsZero(), 1)
					set(legacyEmpty, 2)
					set(jsonEmpty, 4)
					isNil := (f.Kind() == reflect.Interface || f.Kind() == reflect.Pointer) && f.IsNil()
					elemNil := f.Kind() == reflect.Interface && !f.IsNil() && f.Elem().Kind() == reflect.Pointer && f.Elem().IsNil()
					set(isNil, 8)
					set(elemNil, 16)
					if kd := c15ZeroKind(sf.Type); kd != "n" && !isNil && !elemNil {
						set(zero, 32) // the method's own answer (no guard applies)
					}
					names = append(names, sf.Name)
					modelVals = append(modelVals, vb)
					lines = append(lines, fmt.Sprintf("fields omitz %d %d %s %d", c15OptBits(false, 0, false, o.Omitzero, o.Omitempty, false, false), fl, c15ZeroKind(sf.Type), vb))
				}
				for pass, arg := range []any{v.Addr().Interface(), v.Interface()} {
					var b []byte
					var err error
					if p := guard(func() { b, err = json.Marshal(arg, opts...) }); p != nil {
						c.Panic("Marshal", []byte(desc), p, nil)
						continue
					}
					if err != nil {
						c.Violate("zerogrid-marshal-error", "Marshal", []byte(desc), map[string]any{"err": fmt.Sprint(err)})
						continue
					}
					ms, _ := c15Members(b)
					var got []string
					emitted := map[string]bool{}
					for _, m := range ms {
						got = append(got, m.Name)
						emitted[m.Name] = true
					}
					c.Case(fmt.Sprintf("zerogrid %d %s", pass, desc), true)
					if strings.Join(got, " ") != strings.Join(want, " ") {
						c.Violate("omit-zero-method", "Marshal", []byte(desc), map[string]any{"got": got, "want": want, "byValue": pass == 1, "out": trunc(string(b), 500)})
					}
					if or != nil && pass == 0 {
						for i, a := range or.Ask(lines) {
							if (a == "0") != emitted[names[i]] {
								c.Violate("corr-omitz", "Marshal", []byte(desc), map[string]any{"field": names[i], "line": lines[i], "modelOmits": a, "implEmits": emitted[names[i]]})
							}
						}
					}
					// documented equivalence: OmitZeroStructFields(true) = the `omitzero` tag on every field
					if ozf && ti == 0 { // (with omitempty the option's reach into nested structs changes their emptiness: covered by the grid reference instead)
						tw := reflect.New(c15ZeroGridTypes[ti+1]).Elem()
						tw.Set(v.Convert(tw.Type()))
						var b2 []byte
						guard(func() { b2, _ = json.Marshal(tw.Addr().Interface(), jsonv1.OmitEmptyWithLegacySemantics(legacy)) })
						// same members of THIS struct (the option, unlike the tags, also reaches nested structs, so values may differ)
						ms2, _ := c15Members(b2)
						var got2 []string
						for _, m := range ms2 {
							got2 = append(got2, m.Name)
						}
						if strings.Join(got, " ") != strings.Join(got2, " ") {
							c.Violate("omitzero-option-vs-tag", "Marshal", []byte(desc), map[string]any{"withOption": trunc(string(b), 400), "withTags": trunc(string(b2), 400)})
						}
					}
				}
			}
		}
	}
}

// omitzero / omitempty / string: emitted iff the documented condition holds
func c15CheckOmit(c *Ctx, rng *rand.Rand, cs *c15Case) {
	rule := cs.rule
	if len(rule.Winners) == 0 || len(rule.Winners) > 40 {
		return
	}
	for rep := 0; rep < 2; rep++ {
		ozAll, legacy, strAll := rng.IntN(3) == 0, rng.IntN(3) == 0, rng.IntN(4) == 0
		opts := []json.Options{json.OmitZeroStructFields(ozAll), jsonv1.OmitEmptyWithLegacySemantics(legacy), json.StringifyNumbers(strAll)}
		v := reflect.New(cs.t).Elem()
		type exp struct {
			name string
			emit bool
			raw  string
		}
		var exps []exp
		usable := true
		for n, w := range rule.Winners {
			f, ok := c15Field(v, w.Path, true)
			if !ok {
				continue // behind an unallocatable pointer: omitted
			}
			switch st := rng.IntN(3); st {
			case 1: // non-zero
				c15SetNonZero(f, n, 0)
			case 2: // empty but not zero, where the kind has such a value; IsZero disagreeing with the zero Go value
				if sv := c15SpecialValues(f.Type()); sv != nil && f.CanSet() {
					f.Set(reflect.ValueOf(sv[rng.IntN(len(sv))]))
					c.Hit("omit/iszero-method-value")
					break
				}
				switch f.Kind() {
				case reflect.Slice:
					if f.CanSet() {
						f.Set(reflect.MakeSlice(f.Type(), 0, 0))
					}
				case reflect.Map:
					if f.CanSet() {
						f.Set(reflect.MakeMap(f.Type()))
					}
				case reflect.Pointer:
					if f.CanSet() {
						f.Set(reflect.New(f.Type().Elem()))
					}
				}
			}
			// documented conditions
			zero := c15DocZero(f)
			legacyEmpty := false
			switch f.Kind() {
			case reflect.Bool, reflect.Int, reflect.Int8, reflect.Int16, reflect.Int32, reflect.Int64, reflect.Uint, reflect.Uint8, reflect.Uint16, reflect.Uint32, reflect.Uint64,
				reflect.Float32, reflect.Float64, reflect.Pointer, reflect.Interface:
				legacyEmpty = f.IsZero()
			case reflect.String, reflect.Map, reflect.Slice, reflect.Array:
				legacyEmpty = f.Len() == 0
			}
			var enc []byte
			var err error
			str := w.D.O.String || strAll
			if !f.CanInterface() {
				usable = false
				break
			}
			if p := guard(func() {
				enc, err = json.Marshal(f.Interface(), json.OmitZeroStructFields(ozAll), jsonv1.OmitEmptyWithLegacySemantics(legacy), json.StringifyNumbers(str))
			}); p != nil || err != nil {
				usable = false
				break
			}
			jsonEmpty := false
			switch string(enc) {
			case "null", `""`, "{}", "[]":
				jsonEmpty = true
			}
			omit := ((w.D.O.Omitzero || ozAll) && zero) || (w.D.O.Omitempty && legacy && legacyEmpty) || (w.D.O.Omitempty && !legacy && jsonEmpty)
			exps = append(exps, exp{w.Name, !omit, string(enc)})
			if w.D.O.Omitzero || w.D.O.Omitempty || ozAll {
				c.Hit(fmt.Sprintf("omit/tagged emit=%v", !omit))
			}
		}
		if !usable {
			c.Hit("omit/skipped")
			continue
		}
		var b []byte
		var err error
		if p := guard(func() { b, err = json.Marshal(v.Addr().Interface(), opts...) }); p != nil {
			c.Panic("Marshal", []byte(cs.desc), p, cs.detail(nil))
			return
		}
		if err != nil {
			c.Hit("omit/marshal-error")
			continue
		}
		ms, ok := c15Members(b)
		if !ok {
			continue
		}
		var got, want []string
		for _, m := range ms {
			got = append(got, m.Name+"="+m.Raw)
		}
		for _, e := range exps {
			if e.emit {
				want = append(want, e.name+"="+e.raw)
			}
		}
		c.Case(fmt.Sprintf("omit %v %v %v %s %s", ozAll, legacy, strAll, cs.desc, trunc(string(b), 200)), true)
		if strings.Join(got, "\x00") != strings.Join(want, "\x00") {
			c.Violate("omit-mismatch", "Marshal", []byte(cs.desc), cs.detail(map[string]any{"got": trunc(fmt.Sprintf("%q", got), 600), "want": trunc(fmt.Sprintf("%q", want), 600),
				"OmitZeroStructFields": ozAll, "OmitEmptyWithLegacySemantics": legacy, "StringifyNumbers": strAll}))
			return
		}
		c.Hit("omit/ok")
	}
}

// ---------------------------------------------------------------------------------------------------
// static checks: fold, match, omit formula, tag parser

var c15FoldAlphabet = []rune{'a', 'A', 'b', 'z', 'Z', 'k', 'K', 's', 'S', '_', '-', '0', '9', ' ', '.', '[', '`', '{', '@', 0x7f, 0, 'é', 'É', 'ß', 0x1e9e, 'µ', 0x3bc, 0x39c, 0x17f, 0x212a,
	0x212b, 'å', 'Å', 'ÿ', 0x178, '中', 0x1f600, '×', '÷', 'à', 'þ', 'Þ', 0xfffd}

func c15Static(c *Ctx) {
	or := c.NewOracle()
	rng := c.SubRng(999)
	// the oracle's foldRune table agrees with unicode.SimpleFold on the alphabet: orbit minimum
	foldRune := func(r rune) rune {
		for {
			r2 := unicode.SimpleFold(r)
			if r2 <= r {
				return r2
			}
			r = r2
		}
	}
	_ = foldRune
	// fold: correspondence + the ASCII characterisation on the implementation
	nFold := c.N(20000, 400000)
	var inputs [][]byte
	var lines []string
	for i := 0; i < nFold; i++ {
		n := rng.IntN(10)
		var b []byte
		for k := 0; k < n; k++ {
			switch rng.IntN(20) {
			case 0:
				b = append(b, byte(0x80+rng.IntN(0x80))) // possibly ill-formed
			case 1:
				b = append(b, byte(rng.IntN(0x80)))
			default:
				b = utf8.AppendRune(b, c15FoldAlphabet[rng.IntN(len(c15FoldAlphabet))])
			}
		}
		// keep only inputs whose decoded runes are in the alphabet (the oracle's table is exact there) or ill-formed
		okIn := true
		for _, r := range string(b) {
			if r >= 0x80 && r != utf8.RuneError {
				found := false
				for _, a := range c15FoldAlphabet {
					if a == r {
						found = true
					}
				}
				if !found {
					okIn = false
				}
			}
		}
		if !okIn {
			continue
		}
		inputs = append(inputs, b)
		lines = append(lines, "fields fold "+hx(b))
	}
	var ans []string
	if or != nil {
		ans = or.Ask(lines)
	}
	for i, b := range inputs {
		var got []byte
		if p := guard(func() { got = json.VerifFoldName(b) }); p != nil {
			c.Panic("foldName", b, p, nil)
			continue
		}
		c.Case("fold "+string(b), len(b) > 1)
		if ans != nil && hx(got) != ans[i] {
			c.Violate("corr-fold", "foldName", b, map[string]any{"impl": hx(got), "model": ans[i]})
		}
		// property: foldName x = foldName y  ⇔  EqualFold(strip x, strip y)   (valid UTF-8 inputs)
		if i > 0 && utf8.Valid(b) && utf8.Valid(inputs[i-1]) {
			x, y := b, inputs[i-1]
			if rng.IntN(2) == 0 { // make a related pair
				vs := c15Variants(rng, string(x))
				y = []byte(vs[rng.IntN(len(vs))])
			}
			eq := bytes.Equal(json.VerifFoldName(x), json.VerifFoldName(y))
			want := strings.EqualFold(c15Strip(string(x)), c15Strip(string(y)))
			c.Hit(fmt.Sprintf("fold/pair-equal=%v", want))
			if eq != want {
				c.Violate("fold-equalfold", "foldName", x, map[string]any{"y": hx(y), "foldEqual": eq, "EqualFold(strip)": want})
			}
		}
	}
	// omit formula: model vs documented formula, exhaustive
	if or != nil {
		var ls []string
		for ob := 0; ob < 256; ob += 16 {
			for fl := 0; fl < 4; fl++ {
				for vb := 0; vb < 8; vb++ {
					ls = append(ls, fmt.Sprintf("fields omit %d %d %d", ob, fl, vb))
				}
			}
		}
		as := or.Ask(ls)
		k := 0
		for ob := 0; ob < 256; ob += 16 {
			for fl := 0; fl < 4; fl++ {
				for vb := 0; vb < 8; vb++ {
					oz, oe := ob&16 != 0, ob&32 != 0
					want := ((oz || fl&1 != 0) && vb&1 != 0) || (oe && fl&2 != 0 && vb&2 != 0) || (oe && fl&2 == 0 && vb&4 != 0)
					if (as[k] == "1") != want {
						c.Violate("corr-omit", "omit", nil, map[string]any{"line": ls[k], "model": as[k]})
					}
					k++
				}
			}
		}
	}
	c15ZeroGrid(c, or, rng)
	c15Routes(c, rng)
	// tag parser: parseFieldOptions vs the independent parser, generated and mutated tags
	frag := []string{"", "a", "A_b", "name", "x y", "é", "-", "omitzero", "omitempty", "string", "embed", "case:ignore", "case:strict", "case", "case:x", "format:x", "format:'a b'",
		"format:''", "format", "unknown", "omitEmpty", "omit_zero", "String", "CASE", "a:b", "1x", "_x", "x1", " ", "fo.o", "\"q", "q\\", "`"}
	nTags := c.N(30000, 300000)
	for i := 0; i < nTags; i++ {
		n := rng.IntN(5)
		var parts []string
		for k := 0; k <= n; k++ {
			parts = append(parts, frag[rng.IntN(len(frag))])
		}
		tag := strings.Join(parts, ",")
		if rng.IntN(4) == 0 && len(tag) > 0 && !strings.Contains(tag, "'") { // mutate one byte
			bs := []byte(tag)
			alphabet := ",:_-aZ09 .\"\\x"
			bs[rng.IntN(len(bs))] = alphabet[rng.IntN(len(alphabet))]
			tag = string(bs)
		}
		if !utf8.ValidString(tag) || strings.Count(tag, "'") != strings.Count(tag, "format:'")*2 {
			continue
		}
		if i := strings.IndexByte(tag, ','); i >= 0 && strings.IndexFunc(tag[i:], func(r rune) bool { return r >= 0x80 }) >= 0 {
			continue // the independent parser covers ASCII options only
		}
		sf := reflect.StructField{Name: "Field", Type: reflect.TypeFor[int](), Tag: reflect.StructTag("json:" + strconv.Quote(tag))}
		if got, ok := sf.Tag.Lookup("json"); !ok || got != tag {
			continue
		}
		var out json.VerifField
		var ignored bool
		var err error
		if p := guard(func() { out, ignored, err = json.VerifParseFieldOptions(sf) }); p != nil {
			c.Panic("parseFieldOptions", []byte(tag), p, nil)
			continue
		}
		c.Case("tag "+tag, strings.Contains(tag, ","))
		if tag == "-" {
			if !ignored || err != nil {
				c.Violate("tag-dash", "parseFieldOptions", []byte(tag), nil)
			}
			continue
		}
		o, bad := c15ParseTag("Field", tag)
		c.Hit(fmt.Sprintf("tag/error=%v", err != nil))
		if (err != nil) != bad || ignored {
			c.Violate("corr-tag-error", "parseFieldOptions", []byte(tag), map[string]any{"implErr": fmt.Sprint(err), "independentBad": bad})
			continue
		}
		if err == nil {
			g := c15Opts{out.Name, out.HasName, int(out.Casing), out.Embed, out.Omitzero, out.Omitempty, out.String, out.Format}
			if g != o {
				c.Violate("corr-tag-options", "parseFieldOptions", []byte(tag), map[string]any{"impl": fmt.Sprintf("%+v", g), "independent": fmt.Sprintf("%+v", o)})
			}
		}
	}
	// matchFoldedName is exercised through Unmarshal in c15CheckLookup; the model's `match` op through `lookups`.
}
