package main

// C04 — Marshal then Unmarshal restores the value (round trip).
//
// Predicates evaluated on the implementation (every library call through guard()):
//
//	b1 := Marshal(v, o)            must succeed: the generator only builds values of the property's universe   else "rt-marshal-fails"
//	Unmarshal(b1, &v2, o)          must succeed                                   else "rt-unmarshal-rejects"
//	b2 := Marshal(v2, o)           must succeed                                   else "rt-remarshal-fails"
//	no omitzero/omitempty:         b2 == b1                                       else "rt-bytes-differ"
//	with omit options:             b3 := Marshal(Unmarshal(b2)) == b2             else "rt-fixpoint"
//	where equality is meaningful:  v2 == v in the sense of EqMode (gen_values.go) else "rt-value-differs"
//
// over (a) random reflect-built types x symmetric option sets (gen_values.go), (b) integer sweeps around
// every power-of-two bound in every representation (bare, `string`, map key, StringifyNumbers, v1 quoted),
// (c) float32/float64 bit-pattern sweeps (thorough: all 2^32 float32 patterns), (d) every time/duration
// format over boundary-dense int64 samples, (e) every bytes format over all short lengths.
// Correspondence (Tie B): the pure integer codecs of arshal_time.go against the Lean model (family `time`).

import (
	"bytes"
	"errors"
	"fmt"
	"math"
	"math/rand/v2"
	"reflect"
	"strconv"
	"strings"
	"sync"
	"sync/atomic"
	"time"

	json "github.com/go-json-experiment/json"
	"github.com/go-json-experiment/json/internal/jsonwire"
	"github.com/go-json-experiment/json/jsontext"
	jsonv1 "github.com/go-json-experiment/json/v1"
)

func init() { register("C04", runC04) }

// c04OptSet is one symmetric option set (the same options go to Marshal and Unmarshal).
type c04OptSet struct {
	name          string
	opts          []json.Options
	feat          GenFeatures
	nilAsNull     bool // FormatNilSliceAsNull / FormatNilMapAsNull in effect
	stringifyAny  bool // StringifyNumbers in effect
	deterministic bool
	allOmit       bool // OmitZeroStructFields: every struct field behaves like omitzero
	weight        int
}

func c04OptSets() []c04OptSet {
	ft := json.ExperimentalSupportFormatTag(true)
	v1 := jsonv1.DefaultOptionsV1()
	sets := []c04OptSet{
		{name: "default", weight: 6},
		{name: "StringifyNumbers", opts: []json.Options{json.StringifyNumbers(true)}, stringifyAny: true, weight: 3},
		{name: "Deterministic", opts: []json.Options{json.Deterministic(true)}, deterministic: true, weight: 3},
		{name: "FormatTag", opts: []json.Options{ft}, feat: GenFeatures{FormatTags: true}, weight: 6},
		{name: "FormatTag+Deterministic", opts: []json.Options{ft, json.Deterministic(true)}, feat: GenFeatures{FormatTags: true}, deterministic: true, weight: 3},
		{name: "FormatTag+StringifyNumbers", opts: []json.Options{ft, json.StringifyNumbers(true)}, feat: GenFeatures{FormatTags: true}, stringifyAny: true, weight: 2},
		{name: "DefaultOptionsV1", opts: []json.Options{v1}, feat: GenFeatures{BareDuration: true, LegacyString: true}, nilAsNull: true, deterministic: true, weight: 6},
		{name: "DefaultOptionsV1+FormatTag", opts: []json.Options{v1, ft}, feat: GenFeatures{BareDuration: true, LegacyString: true, FormatTags: true}, nilAsNull: true, deterministic: true, weight: 3},
		{name: "DefaultOptionsV1+StringifyNumbers", opts: []json.Options{v1, json.StringifyNumbers(true)}, feat: GenFeatures{BareDuration: true, LegacyString: true}, nilAsNull: true, deterministic: true, stringifyAny: true, weight: 1},
		{name: "FormatNilSliceAsNull+FormatNilMapAsNull", opts: []json.Options{json.FormatNilSliceAsNull(true), json.FormatNilMapAsNull(true)}, nilAsNull: true, weight: 2},
		{name: "OmitZeroStructFields", opts: []json.Options{json.OmitZeroStructFields(true)}, allOmit: true, weight: 2},
		{name: "MatchCaseInsensitiveNames", opts: []json.Options{json.MatchCaseInsensitiveNames(true)}, weight: 1},
		{name: "RejectUnknownMembers", opts: []json.Options{json.RejectUnknownMembers(true)}, weight: 1},
		{name: "EscapeForHTML+EscapeForJS", opts: []json.Options{jsontext.EscapeForHTML(true), jsontext.EscapeForJS(true)}, weight: 1},
		{name: "AllowDuplicateNames+AllowInvalidUTF8", opts: []json.Options{jsontext.AllowDuplicateNames(true), jsontext.AllowInvalidUTF8(true)}, weight: 1},
		{name: "Multiline", opts: []json.Options{jsontext.Multiline(true)}, weight: 1},
		{name: "WithIndent+SpaceAfter", opts: []json.Options{jsontext.WithIndent("\t"), jsontext.SpaceAfterColon(true), jsontext.SpaceAfterComma(true)}, weight: 1},
		{name: "StringifyWithLegacySemantics+ReportErrorsWithLegacySemantics", opts: []json.Options{jsonv1.StringifyWithLegacySemantics(true), jsonv1.ReportErrorsWithLegacySemantics(true)}, feat: GenFeatures{LegacyString: true}, weight: 2},
	}
	// each individual v1 option on its own
	for _, o := range []struct {
		name string
		f    func(bool) json.Options
		feat GenFeatures
	}{
		{"CallMethodsWithLegacySemantics", jsonv1.CallMethodsWithLegacySemantics, GenFeatures{}},
		{"FormatByteArrayAsArray", jsonv1.FormatByteArrayAsArray, GenFeatures{}},
		{"FormatBytesWithLegacySemantics", jsonv1.FormatBytesWithLegacySemantics, GenFeatures{}},
		{"FormatDurationAsNano", jsonv1.FormatDurationAsNano, GenFeatures{BareDuration: true}},
		{"MatchCaseSensitiveDelimiter", jsonv1.MatchCaseSensitiveDelimiter, GenFeatures{}},
		{"MergeWithLegacySemantics", jsonv1.MergeWithLegacySemantics, GenFeatures{}},
		{"OmitEmptyWithLegacySemantics", jsonv1.OmitEmptyWithLegacySemantics, GenFeatures{}},
		{"ParseBytesWithLooseRFC4648", jsonv1.ParseBytesWithLooseRFC4648, GenFeatures{}},
		{"ParseTimeWithLooseRFC3339", jsonv1.ParseTimeWithLooseRFC3339, GenFeatures{}},
		{"ReportErrorsWithLegacySemantics", jsonv1.ReportErrorsWithLegacySemantics, GenFeatures{}},
		{"StringifyWithLegacySemantics", jsonv1.StringifyWithLegacySemantics, GenFeatures{NoStringOnNestedPtr: true}},
		{"UnmarshalArrayFromAnyLength", jsonv1.UnmarshalArrayFromAnyLength, GenFeatures{}},
	} {
		sets = append(sets, c04OptSet{name: "v1." + o.name, opts: []json.Options{o.f(true)}, feat: o.feat, weight: 1})
		// ... and together with format tags (FormatDurationAsNano and the bytes options interact with `format:`)
		f := o.feat
		f.FormatTags = true
		sets = append(sets, c04OptSet{name: "v1." + o.name + "+FormatTag", opts: []json.Options{o.f(true), ft}, feat: f, weight: 1})
	}
	return sets
}

func runC04(c *Ctx) {
	or := c.NewOracle()
	c04TimeCorr(c, or)
	c04IntSweeps(c)
	c04FloatSweeps(c)
	c04TimeFormats(c)
	c04BytesFormats(c)
	c04RandomTypes(c)
	runC04L3(c) // tree-level whole-value round trip vs the L3 model (Props/C04L3)
}

// ---------------------------------------------------------------- the round-trip predicate

type c04Case struct {
	set     *c04OptSet
	gt      *GenT
	modOrder bool // compare bytes modulo object member order (non-deterministic map iteration)
}

func errClass(err error) string {
	if err == nil {
		return "ok"
	}
	s := err.Error()
	for _, k := range []string{"no default representation", "invalid use of `string` tag", "invalid format flag", "unsupported `format` tag", "malformed `json` tag",
		"unsupported value", "year outside of range", "timezone hour outside", "duplicate", "invalid UTF-8", "conflict over JSON object name", "no exported fields", "cannot have any options"} {
		if strings.Contains(s, k) {
			return k
		}
	}
	return "other"
}

// reorder sorts the members of every object (numbers and strings stay verbatim); used only when the option
// set leaves Go's random map iteration order visible in the output.
func c04Reorder(b []byte) ([]byte, error) {
	v := jsontext.Value(bytes.Clone(b))
	err := v.Format(jsontext.ReorderRawObjects(true), jsontext.AllowInvalidUTF8(true), jsontext.PreserveRawStrings(true))
	return []byte(v), err
}

func (k *c04Case) sameBytes(a, b []byte) bool {
	if bytes.Equal(a, b) {
		return true
	}
	if !k.modOrder {
		return false
	}
	ra, e1 := c04Reorder(a)
	rb, e2 := c04Reorder(b)
	return e1 == nil && e2 == nil && bytes.Equal(ra, rb)
}

func (k *c04Case) marshal(c *Ctx, op string, v reflect.Value, in []byte) (b []byte, err error, panicked bool) {
	if p := guard(func() { b, err = json.Marshal(v.Interface(), k.set.opts...) }); p != nil {
		c.Panic(op, in, p, map[string]any{"type": k.gt.Type.String(), "options": k.set.name, "value": trunc(GoSyntax(v), 2000)})
		return nil, nil, true
	}
	return b, err, false
}

func (k *c04Case) unmarshal(c *Ctx, op string, b []byte) (v reflect.Value, err error, panicked bool) {
	p := reflect.New(k.gt.Type)
	if pn := guard(func() { err = json.Unmarshal(b, p.Interface(), k.set.opts...) }); pn != nil {
		c.Panic(op, b, pn, map[string]any{"type": k.gt.Type.String(), "options": k.set.name})
		return v, nil, true
	}
	return p.Elem(), err, false
}

// roundTrip evaluates the property on one value; it returns false when Marshal(v) failed (vacuous case).
func (k *c04Case) roundTrip(c *Ctx, v reflect.Value) bool {
	detail := func(extra map[string]any) map[string]any {
		d := map[string]any{"type": trunc(k.gt.Type.String(), 4000), "options": k.set.name, "value": trunc(GoSyntax(v), 4000)}
		for kk, vv := range extra {
			d[kk] = vv
		}
		return d
	}
	b1, err, pn := k.marshal(c, "Marshal", v, nil)
	if pn {
		return false
	}
	if err != nil {
		// Every type/value the generator builds is inside the property's universe (gen_values.go excludes the
		// documented non-marshalable cases by construction), so a Marshal error is itself a violation.
		c.Hit("marshal-error:" + errClass(err))
		c.Violate("rt-marshal-fails", "Marshal(v)", nil, detail(map[string]any{"err": trunc(err.Error(), 600)}))
		return false
	}
	v2, err, pn := k.unmarshal(c, "Unmarshal", b1)
	if pn {
		return true
	}
	if err != nil {
		c.Violate("rt-unmarshal-rejects", "Unmarshal(Marshal(v))", b1, detail(map[string]any{"b1": trunc(string(b1), 4000), "err": err.Error()}))
		return true
	}
	b2, err, pn := k.marshal(c, "Marshal(v2)", v2, b1)
	if pn {
		return true
	}
	if err != nil {
		c.Violate("rt-remarshal-fails", "Marshal(Unmarshal(Marshal(v)))", b1, detail(map[string]any{"b1": trunc(string(b1), 4000), "err": err.Error()}))
		return true
	}
	hasOmit := k.gt.HasOmit || k.set.allOmit
	if !hasOmit {
		if !k.sameBytes(b1, b2) {
			c.Violate("rt-bytes-differ", "Marshal(Unmarshal(b1)) != b1", b1, detail(map[string]any{"b1": trunc(string(b1), 4000), "b2": trunc(string(b2), 4000)}))
			return true
		}
		m := EqMode{NilAsNull: k.set.nilAsNull, StringifiedAny: k.set.stringifyAny,
			FormatFloat: func(f float64) string { return string(jsonwire.AppendFloat(nil, f, 64)) }}
		if d := k.gt.Equal(v, v2, m); d != "" {
			c.Violate("rt-value-differs", "Unmarshal(Marshal(v)) != v", b1, detail(map[string]any{"b1": trunc(string(b1), 4000), "at": d, "decoded": trunc(GoSyntax(v2), 4000)}))
			return true
		}
		c.Hit("checked:bytes+value")
		return true
	}
	// omit options: a fixed point is reached after one round
	if k.sameBytes(b1, b2) {
		c.Hit("omit:b2==b1")
	} else {
		c.Hit("omit:b2!=b1(second round needed)")
	}
	v3, err, pn := k.unmarshal(c, "Unmarshal(b2)", b2)
	if pn {
		return true
	}
	if err != nil {
		c.Violate("rt-unmarshal-rejects", "Unmarshal(b2)", b2, detail(map[string]any{"b1": trunc(string(b1), 4000), "b2": trunc(string(b2), 4000), "err": err.Error()}))
		return true
	}
	b3, err, pn := k.marshal(c, "Marshal(v3)", v3, b2)
	if pn {
		return true
	}
	if err != nil || !k.sameBytes(b2, b3) {
		c.Violate("rt-fixpoint", "Marshal(Unmarshal(b2)) != b2", b2, detail(map[string]any{"b1": trunc(string(b1), 4000), "b2": trunc(string(b2), 4000), "b3": trunc(string(b3), 4000), "err": fmt.Sprint(err)}))
		return true
	}
	c.Hit("checked:fixpoint")
	return true
}

// ---------------------------------------------------------------- (a) random reflect-built types

func c04RandomTypes(c *Ctx) {
	sets := c04OptSets()
	var wheel []int
	for i, s := range sets {
		for j := 0; j < s.weight; j++ {
			wheel = append(wheel, i)
		}
	}
	nTypes := c.N(9000, 600000)
	workers := 8
	if c.Thorough() {
		workers = 16
	}
	var wg sync.WaitGroup
	var sampled atomic.Int32
	for w := 0; w < workers; w++ {
		wg.Add(1)
		go func(w int) {
			defer wg.Done()
			r := c.SubRng(uint64(1000 + w))
			for i := w; i < nTypes; i += workers {
				set := &sets[wheel[r.IntN(len(wheel))]]
				f := set.feat
				// with a visible random map order compare modulo member order (half of the time: only single-entry maps, strict comparison)
				f.MultiEntryMaps = set.deterministic || r.IntN(4) != 0
				f.NoOmit = r.IntN(3) != 0 // value equality needs types without omit options: make them the majority
				gt := GenValType(r, f)
				if gt == nil {
					c.Hit("reflect-refused-type")
					continue
				}
				k := &c04Case{set: set, gt: gt, modOrder: !set.deterministic && f.MultiEntryMaps && (gt.HasMap || gt.HasAny)}
				c.Hit("options:" + set.name)
				if gt.Lossy {
					c.Hit("type:has-uncompared-fields")
				}
				nv := 4
				for j := 0; j < nv; j++ {
					v := gt.Value(r)
					ok := k.roundTrip(c, v)
					key := ""
					if ok {
						key = set.name + "|" + gt.Type.String() + "|" + GoSyntax(v)
					}
					c.Case(key, ok)
					if ok && sampled.Add(1) <= 4 {
						b, _ := json.Marshal(v.Interface(), set.opts...)
						c.Sample(map[string]any{"op": "round-trip", "options": set.name, "type": trunc(gt.Type.String(), 300), "json": trunc(string(b), 300)})
					}
					if !ok && j == 1 {
						break // this type does not marshal under this option set: do not spend more values on it
					}
				}
				for _, ft := range gt.Feats() { // after the values: name plans are chosen while filling
					c.Hit(ft)
				}
			}
		}(w)
	}
	wg.Wait()
}

// ---------------------------------------------------------------- (b) integers: full precision in every representation

type c04IntBox[T comparable] struct {
	A T
	B T `json:",string"`
	C map[T]T
	D *T
	E []T
	F [1]T
	G any `json:"-"`
}

type integer interface {
	~int | ~int8 | ~int16 | ~int32 | ~int64 | ~uint | ~uint8 | ~uint16 | ~uint32 | ~uint64 | ~uintptr
}

func c04IntSweep[T integer](c *Ctx, name string, vals []T) {
	sets := []struct {
		name string
		opts []json.Options
	}{
		{"default", nil},
		{"StringifyNumbers", []json.Options{json.StringifyNumbers(true)}},
		{"DefaultOptionsV1", []json.Options{jsonv1.DefaultOptionsV1()}},
		{"StringifyWithLegacySemantics", []json.Options{jsonv1.StringifyWithLegacySemantics(true)}},
	}
	for _, s := range sets {
		for _, x := range vals {
			x := x
			in := c04IntBox[T]{A: x, B: x, C: map[T]T{x: x}, D: &x, E: []T{x, x}, F: [1]T{x}}
			var out c04IntBox[T]
			var b []byte
			var err, err2 error
			if p := guard(func() {
				b, err = json.Marshal(in, s.opts...)
				if err == nil {
					err2 = json.Unmarshal(b, &out, s.opts...)
				}
			}); p != nil {
				c.Panic("int-sweep:"+name, b, p, map[string]any{"value": fmt.Sprint(x), "options": s.name})
				continue
			}
			ok := err == nil && err2 == nil && out.A == x && out.B == x && len(out.C) == 1 && out.C[x] == x && out.D != nil && *out.D == x &&
				len(out.E) == 2 && out.E[0] == x && out.E[1] == x && out.F[0] == x
			if !ok {
				c.Violate("rt-int-precision", "int-sweep:"+name+":"+s.name, b, map[string]any{"value": fmt.Sprint(x), "json": string(b), "marshal_err": fmt.Sprint(err), "unmarshal_err": fmt.Sprint(err2), "decoded": fmt.Sprintf("%+v", out)})
			}
			// bare top-level value and bare pointer
			var y T
			var b0 []byte
			if p := guard(func() {
				b0, err = json.Marshal(x, s.opts...)
				if err == nil {
					err2 = json.Unmarshal(b0, &y, s.opts...)
				}
			}); p != nil {
				c.Panic("int-sweep-bare:"+name, b0, p, map[string]any{"value": fmt.Sprint(x)})
				continue
			}
			if err != nil || err2 != nil || y != x {
				c.Violate("rt-int-precision", "int-sweep-bare:"+name+":"+s.name, b0, map[string]any{"value": fmt.Sprint(x), "json": string(b0), "decoded": fmt.Sprint(y), "err": fmt.Sprint(err, err2)})
			}
			c.Case("int:"+name+":"+s.name+":"+fmt.Sprint(x), true)
		}
		c.HitN("int-sweep:"+name+":"+s.name, int64(len(vals)))
	}
}

// boundaryInts: every value within ±span of 0, ±2^k and ±10^k that fits in `bits`, plus random ones.
func c04BoundarySigned(r *rand.Rand, bits int, span int64, nrand int) []int64 {
	lo, hi := -(int64(1) << (bits - 1)), int64(1)<<(bits-1)-1
	seen := map[int64]bool{}
	var out []int64
	add := func(x int64) {
		if x >= lo && x <= hi && !seen[x] {
			seen[x] = true
			out = append(out, x)
		}
	}
	var centers []int64
	centers = append(centers, 0, lo, hi)
	for k := 0; k < bits-1; k++ {
		centers = append(centers, int64(1)<<k, -(int64(1) << k))
	}
	for p, k := int64(1), 0; k < 19; p, k = p*10, k+1 {
		centers = append(centers, p, -p)
	}
	for _, ce := range centers {
		for d := -span; d <= span; d++ {
			x := ce + d
			if (d > 0 && x < ce) || (d < 0 && x > ce) {
				continue // wrapped
			}
			add(x)
		}
	}
	for i := 0; i < nrand; i++ {
		add(BoundaryInt64(r) >> (64 - bits) << 0)
		add(int64(r.Uint64()) >> r.IntN(64))
	}
	return out
}

func c04BoundaryUnsigned(r *rand.Rand, bits int, span uint64, nrand int) []uint64 {
	hi := uint64(math.MaxUint64)
	if bits < 64 {
		hi = uint64(1)<<bits - 1
	}
	seen := map[uint64]bool{}
	var out []uint64
	add := func(x uint64) {
		if x <= hi && !seen[x] {
			seen[x] = true
			out = append(out, x)
		}
	}
	var centers []uint64
	centers = append(centers, 0, hi)
	for k := 0; k < bits; k++ {
		centers = append(centers, uint64(1)<<k)
	}
	for p, k := uint64(1), 0; k < 20; p, k = p*10, k+1 {
		centers = append(centers, p)
	}
	for _, ce := range centers {
		for d := uint64(0); d <= span; d++ {
			if ce+d >= ce {
				add(ce + d)
			}
			if ce-d <= ce {
				add(ce - d)
			}
		}
	}
	for i := 0; i < nrand; i++ {
		add(r.Uint64() >> r.IntN(64))
	}
	return out
}

func conv[T integer, S int64 | uint64](xs []S) []T {
	out := make([]T, len(xs))
	for i, x := range xs {
		out[i] = T(x)
	}
	return out
}

func c04IntSweeps(c *Ctx) {
	span := int64(c.N(12, 2000))
	nr := c.N(200, 20000)
	r := c.Rng
	c04IntSweep(c, "int8", conv[int8](c04BoundarySigned(r, 8, 300, 0))) // all 256 values
	c04IntSweep(c, "int16", conv[int16](c04BoundarySigned(r, 16, span, nr)))
	c04IntSweep(c, "int32", conv[int32](c04BoundarySigned(r, 32, span, nr)))
	c04IntSweep(c, "int64", conv[int64](c04BoundarySigned(r, 64, span, nr)))
	c04IntSweep(c, "int", conv[int](c04BoundarySigned(r, 64, span, nr)))
	c04IntSweep(c, "uint8", conv[uint8](c04BoundaryUnsigned(r, 8, 300, 0)))
	c04IntSweep(c, "uint16", conv[uint16](c04BoundaryUnsigned(r, 16, uint64(span), nr)))
	c04IntSweep(c, "uint32", conv[uint32](c04BoundaryUnsigned(r, 32, uint64(span), nr)))
	c04IntSweep(c, "uint64", conv[uint64](c04BoundaryUnsigned(r, 64, uint64(span), nr)))
	c04IntSweep(c, "uint", conv[uint](c04BoundaryUnsigned(r, 64, uint64(span), nr)))
	c04IntSweep(c, "uintptr", conv[uintptr](c04BoundaryUnsigned(r, 64, uint64(span), nr)))
}

// ---------------------------------------------------------------- (c) floats: identical bits

type c04F32Box struct {
	A float32
	B float32 `json:",string"`
	C map[float32]float32
	D *float32
	E []float32
	F any // receives float64(A): an untyped number must come back with identical float64 bits
}
type c04F64Box struct {
	A float64
	B float64 `json:",string"`
	C map[float64]float64
	D *float64
	E []float64
	F any
}

func c04FloatSweeps(c *Ctx) {
	sets := []struct {
		name string
		opts []json.Options
		strAny bool
	}{
		{"default", nil, false},
		{"StringifyNumbers", []json.Options{json.StringifyNumbers(true)}, true},
		{"DefaultOptionsV1", []json.Options{jsonv1.DefaultOptionsV1()}, false},
		{"StringifyWithLegacySemantics", []json.Options{jsonv1.StringifyWithLegacySemantics(true)}, false},
	}
	// float32: every exponent x {mantissa 0,1,2,max-1,max, random} x sign; plus random bit patterns
	var p32 []uint32
	for e := uint32(0); e < 255; e++ {
		for _, m := range []uint32{0, 1, 2, 0x7ffffe, 0x7fffff, 0x400000, c.Rng.Uint32() & 0x7fffff, c.Rng.Uint32() & 0x7fffff} {
			p32 = append(p32, e<<23|m, 1<<31|e<<23|m)
		}
	}
	for i := c.N(20000, 500000); i > 0; i-- {
		p32 = append(p32, c.Rng.Uint32())
	}
	for _, s := range sets {
		n := 0
		for _, bits := range p32 {
			x := math.Float32frombits(bits)
			if x != x || math.IsInf(float64(x), 0) {
				continue
			}
			n++
			in := c04F32Box{A: x, B: x, C: map[float32]float32{x: x}, D: &x, E: []float32{x}, F: float64(x)}
			var out c04F32Box
			var b []byte
			var err, err2 error
			if p := guard(func() {
				b, err = json.Marshal(in, s.opts...)
				if err == nil {
					err2 = json.Unmarshal(b, &out, s.opts...)
				}
			}); p != nil {
				c.Panic("float32-sweep", b, p, map[string]any{"bits": fmt.Sprintf("%08x", bits), "options": s.name})
				continue
			}
			eq := func(y float32) bool { return math.Float32bits(y) == bits }
			ok := err == nil && err2 == nil && eq(out.A) && eq(out.B) && len(out.C) == 1 && out.D != nil && eq(*out.D) && len(out.E) == 1 && eq(out.E[0])
			if ok {
				for k, v := range out.C {
					ok = ok && eq(k) && eq(v)
				}
				if s.strAny {
					fs, isStr := out.F.(string)
					ok = ok && isStr && fs == string(jsonwire.AppendFloat(nil, float64(x), 64))
				} else {
					f64, isF := out.F.(float64)
					ok = ok && isF && math.Float64bits(f64) == math.Float64bits(float64(x))
				}
			}
			if !ok {
				c.Violate("rt-float-bits", "float32-sweep:"+s.name, b, map[string]any{"bits": fmt.Sprintf("%08x", bits), "json": string(b), "marshal_err": fmt.Sprint(err), "unmarshal_err": fmt.Sprint(err2), "decoded": fmt.Sprintf("%+v", out)})
			}
			c.Case(fmt.Sprintf("f32:%s:%08x", s.name, bits), true)
		}
		c.HitN("float32-sweep:"+s.name, int64(n))
	}
	var p64 []uint64
	for e := uint64(0); e < 2047; e += 1 {
		for _, m := range []uint64{0, 1, 1<<52 - 1, c.Rng.Uint64() & (1<<52 - 1)} {
			p64 = append(p64, e<<52|m, 1<<63|e<<52|m)
		}
	}
	for _, f := range genFloat64s {
		p64 = append(p64, math.Float64bits(f))
	}
	for i := c.N(20000, 500000); i > 0; i-- {
		p64 = append(p64, c.Rng.Uint64())
		p64 = append(p64, math.Float64bits(float64(BoundaryInt64(c.Rng)))) // integers: the layout switches at 1e21, exact above 2^53
	}
	for _, s := range sets {
		n := 0
		for _, bits := range p64 {
			x := math.Float64frombits(bits)
			if x != x || math.IsInf(x, 0) {
				continue
			}
			n++
			in := c04F64Box{A: x, B: x, C: map[float64]float64{x: x}, D: &x, E: []float64{x}, F: x}
			var out c04F64Box
			var b []byte
			var err, err2 error
			if p := guard(func() {
				b, err = json.Marshal(in, s.opts...)
				if err == nil {
					err2 = json.Unmarshal(b, &out, s.opts...)
				}
			}); p != nil {
				c.Panic("float64-sweep", b, p, map[string]any{"bits": fmt.Sprintf("%016x", bits), "options": s.name})
				continue
			}
			eq := func(y float64) bool { return math.Float64bits(y) == bits }
			ok := err == nil && err2 == nil && eq(out.A) && eq(out.B) && len(out.C) == 1 && out.D != nil && eq(*out.D) && len(out.E) == 1 && eq(out.E[0])
			if ok {
				for k, v := range out.C {
					ok = ok && eq(k) && eq(v)
				}
				if s.strAny {
					fs, isStr := out.F.(string)
					ok = ok && isStr && fs == string(jsonwire.AppendFloat(nil, x, 64))
				} else {
					f64, isF := out.F.(float64)
					ok = ok && isF && eq(f64)
				}
			}
			if !ok {
				c.Violate("rt-float-bits", "float64-sweep:"+s.name, b, map[string]any{"bits": fmt.Sprintf("%016x", bits), "json": string(b), "marshal_err": fmt.Sprint(err), "unmarshal_err": fmt.Sprint(err2), "decoded": fmt.Sprintf("%+v", out)})
			}
			c.Case(fmt.Sprintf("f64:%s:%016x", s.name, bits), true)
		}
		c.HitN("float64-sweep:"+s.name, int64(n))
	}
	if c.Thorough() {
		c04Float32Exhaustive(c)
	}
}

// c04Float32Exhaustive: ALL 2^32 float32 bit patterns (the finite ones) through
// jsonwire.AppendFloat(…,32) -> strconv.ParseFloat(…,32) (exactly the calls the float arshaler makes), and every
// 64th pattern (rotating offset) additionally through json.Marshal/json.Unmarshal of a float32.  16 goroutines.
func c04Float32Exhaustive(c *Ctx) {
	const workers = 16
	var wg sync.WaitGroup
	var total, full atomic.Int64
	for w := uint64(0); w < workers; w++ {
		wg.Add(1)
		go func(w uint64) {
			defer wg.Done()
			lo, hi := w<<28, (w+1)<<28
			buf := make([]byte, 0, 64)
			var nt, nf int64
			for u := lo; u < hi; u++ {
				bits := uint32(u)
				if bits&0x7f800000 == 0x7f800000 {
					continue // NaN / Inf: Marshal reports an error (outside the quantifier)
				}
				x := math.Float32frombits(bits)
				buf = jsonwire.AppendFloat(buf[:0], float64(x), 32)
				y, err := strconv.ParseFloat(string(buf), 32)
				nt++
				if err != nil || math.Float32bits(float32(y)) != bits {
					c.Violate("rt-float-bits", "float32-exhaustive:AppendFloat/ParseFloat", append([]byte(nil), buf...), map[string]any{"bits": fmt.Sprintf("%08x", bits), "text": string(buf), "back": fmt.Sprintf("%08x", math.Float32bits(float32(y))), "err": fmt.Sprint(err)})
				}
				if (u+(u>>6))&63 == 0 {
					nf++
					var out float32
					var b []byte
					var e1, e2 error
					if p := guard(func() {
						b, e1 = json.Marshal(x)
						if e1 == nil {
							e2 = json.Unmarshal(b, &out)
						}
					}); p != nil {
						c.Panic("float32-exhaustive", b, p, map[string]any{"bits": fmt.Sprintf("%08x", bits)})
						continue
					}
					if e1 != nil || e2 != nil || math.Float32bits(out) != bits || !bytes.Equal(b, buf) {
						c.Violate("rt-float-bits", "float32-exhaustive:Marshal/Unmarshal", b, map[string]any{"bits": fmt.Sprintf("%08x", bits), "json": string(b), "back": fmt.Sprintf("%08x", math.Float32bits(out)), "err": fmt.Sprint(e1, e2)})
					}
				}
			}
			total.Add(nt)
			full.Add(nf)
		}(w)
	}
	wg.Wait()
	c.mu.Lock()
	c.evals += total.Load()
	c.mu.Unlock()
	c.HitN("float32-exhaustive:AppendFloat->ParseFloat(all finite patterns)", total.Load())
	c.HitN("float32-exhaustive:Marshal->Unmarshal(every 64th)", full.Load())
	c.Note("float32 exhaustive: %d finite bit patterns checked (all of them), %d of them also through Marshal/Unmarshal", total.Load(), full.Load())
}

// ---------------------------------------------------------------- (d) time / duration formats

type c04DurBox struct {
	Sec   time.Duration            `json:",format:sec"`
	Milli time.Duration            `json:",format:milli"`
	Micro time.Duration            `json:",format:micro"`
	Nano  time.Duration            `json:",format:nano"`
	Units time.Duration            `json:",format:units"`
	ISO   time.Duration            `json:",format:iso8601"`
	SecS  time.Duration            `json:",string,format:sec"`
	NanoS *time.Duration           `json:",string,format:nano"`
	PISO  **time.Duration          `json:",format:iso8601"`
	M     map[string]time.Duration `json:"-"`
}

type c04TimeBox struct {
	Def    time.Time
	Nano   time.Time  `json:",format:RFC3339Nano"`
	Unix   time.Time  `json:",format:unix"`
	Milli  time.Time  `json:",format:unixmilli"`
	Micro  time.Time  `json:",format:unixmicro"`
	UNano  time.Time  `json:",format:unixnano"`
	UnixS  time.Time  `json:",string,format:unix"`
	PMilli *time.Time `json:",format:unixmilli"`
	Sec    time.Time  `json:",format:RFC3339"` // keeps whole seconds and the offset
	Date   time.Time  `json:",format:DateOnly"`
}

func c04TimeFormats(c *Ctx) {
	ft := json.ExperimentalSupportFormatTag(true)
	sets := []struct {
		name string
		opts []json.Options
	}{
		{"FormatTag", []json.Options{ft}},
		{"FormatTag+StringifyNumbers", []json.Options{ft, json.StringifyNumbers(true)}},
		{"FormatTag+DefaultOptionsV1", []json.Options{ft, jsonv1.DefaultOptionsV1()}},
	}
	n := c.N(6000, 600000)
	bt, bd := ArithBoundaryTimes(), ArithBoundaryDurations()
	for i := 0; i < n+len(bd); i++ {
		s := sets[i%len(sets)]
		d := time.Duration(BoundaryInt64(c.Rng))
		if i < len(bd) {
			d = time.Duration(bd[i]) // boundaries derived from the codecs' 64-bit arithmetic
		}
		pd := &d
		in := c04DurBox{d, d, d, d, d, d, d, &d, &pd, nil}
		var out c04DurBox
		var b []byte
		var err, err2 error
		if p := guard(func() {
			b, err = json.Marshal(in, s.opts...)
			if err == nil {
				err2 = json.Unmarshal(b, &out, s.opts...)
			}
		}); p != nil {
			c.Panic("duration-formats", b, p, map[string]any{"d": int64(d), "options": s.name})
			continue
		}
		ok := err == nil && err2 == nil && out.Sec == d && out.Milli == d && out.Micro == d && out.Nano == d && out.Units == d && out.ISO == d && out.SecS == d &&
			out.NanoS != nil && *out.NanoS == d && out.PISO != nil && *out.PISO != nil && **out.PISO == d
		if !ok {
			c.Violate("rt-duration", "duration-formats:"+s.name, b, map[string]any{"d": int64(d), "json": string(b), "marshal_err": fmt.Sprint(err), "unmarshal_err": fmt.Sprint(err2),
				"decoded": fmt.Sprint(int64(out.Sec), int64(out.Milli), int64(out.Micro), int64(out.Nano), int64(out.Units), int64(out.ISO), int64(out.SecS))})
		}
		c.Case(fmt.Sprintf("dur:%s:%d", s.name, int64(d)), true)
		if i == 7 {
			c.Sample(map[string]any{"op": "duration-formats", "d": int64(d), "json": string(b)})
		}
	}
	c.HitN("duration-formats(sec,milli,micro,nano,units,iso8601,string,ptr)", int64(n+len(bd)))
	// bare durations under FormatDurationAsNano, also as map keys
	for i := 0; i < n/4; i++ {
		d := time.Duration(BoundaryInt64(c.Rng))
		in := map[time.Duration][]time.Duration{d: {d, -d}}
		var out map[time.Duration][]time.Duration
		var b []byte
		var err, err2 error
		if p := guard(func() {
			b, err = json.Marshal(in, jsonv1.FormatDurationAsNano(true))
			if err == nil {
				err2 = json.Unmarshal(b, &out, jsonv1.FormatDurationAsNano(true))
			}
		}); p != nil {
			c.Panic("duration-nano", b, p, map[string]any{"d": int64(d)})
			continue
		}
		if err != nil || err2 != nil || len(out) != 1 || len(out[d]) != 2 || out[d][0] != d || out[d][1] != -d {
			c.Violate("rt-duration", "duration-FormatDurationAsNano", b, map[string]any{"d": int64(d), "json": string(b), "err": fmt.Sprint(err, err2)})
		}
		c.Case(fmt.Sprintf("durnano:%d", int64(d)), true)
	}
	c.HitN("duration-FormatDurationAsNano(map key, slice)", int64(n/4))

	for i := 0; i < n+len(bt); i++ {
		s := sets[i%len(sets)]
		tu := GenTime(c.Rng, "unix") // all of int64 seconds
		if i < len(bt) {
			tu = time.Unix(bt[i][0], bt[i][1]) // boundaries derived from the codecs' 64-bit arithmetic
		}
		tr := GenTime(c.Rng, "")     // years 1..9999 with zones
		in := c04TimeBox{tr, tr, tu, tu, tu, tu, tu, &tu, tr, tr}
		var out c04TimeBox
		var b []byte
		var err, err2 error
		if p := guard(func() {
			b, err = json.Marshal(in, s.opts...)
			if err == nil {
				err2 = json.Unmarshal(b, &out, s.opts...)
			}
		}); p != nil {
			c.Panic("time-formats", b, p, map[string]any{"unix": []int64{tu.Unix(), int64(tu.Nanosecond())}, "options": s.name})
			continue
		}
		same := func(a, b time.Time) bool { return a.Unix() == b.Unix() && a.Nanosecond() == b.Nanosecond() }
		off := func(a time.Time) int { _, o := a.Zone(); return o }
		ok := err == nil && err2 == nil &&
			same(out.Def, tr) && off(out.Def) == off(tr) && same(out.Nano, tr) && off(out.Nano) == off(tr) &&
			same(out.Unix, tu) && same(out.Milli, tu) && same(out.Micro, tu) && same(out.UNano, tu) && same(out.UnixS, tu) &&
			out.PMilli != nil && same(*out.PMilli, tu) && off(out.Unix) == 0 &&
			out.Sec.Unix() == tr.Unix() && out.Sec.Nanosecond() == 0 && off(out.Sec) == off(tr)
		if ok {
			y, m, d := tr.Date()
			y2, m2, d2 := out.Date.Date()
			ok = y == y2 && m == m2 && d == d2
		}
		if !ok {
			c.Violate("rt-time", "time-formats:"+s.name, b, map[string]any{"unix": []int64{tu.Unix(), int64(tu.Nanosecond())}, "rfc": []int64{tr.Unix(), int64(tr.Nanosecond()), int64(off(tr))},
				"json": string(b), "marshal_err": fmt.Sprint(err), "unmarshal_err": fmt.Sprint(err2), "decoded": trunc(GoSyntax(reflect.ValueOf(out)), 1500)})
		}
		c.Case(fmt.Sprintf("time:%s:%d.%d:%d.%d", s.name, tu.Unix(), tu.Nanosecond(), tr.Unix(), tr.Nanosecond()), true)
		if i == 5 {
			c.Sample(map[string]any{"op": "time-formats", "json": trunc(string(b), 400)})
		}
	}
	c.HitN("time-formats(default,RFC3339Nano,unix,unixmilli,unixmicro,unixnano,string,ptr,RFC3339,DateOnly)", int64(n+len(bt)))
	c.HitN("time-formats:arith-boundary times through Marshal/Unmarshal", int64(len(bt)))
}

// ---------------------------------------------------------------- (e) bytes formats

type c04BytesBox struct {
	Def  []byte
	B64  []byte   `json:",format:base64"`
	B64U []byte   `json:",format:base64url"`
	B32  []byte   `json:",format:base32"`
	B32H []byte   `json:",format:base32hex"`
	B16  []byte   `json:",format:base16"`
	Hex  []byte   `json:",format:hex"`
	Arr  []byte   `json:",format:array"`
	A5   [5]byte  `json:",format:base32"`
	A0   [0]byte  `json:",format:base16"`
	A3   [3]byte  `json:",format:array"`
	ADef [7]byte
	P    *[]byte  `json:",format:base64url"`
	// [N]byte with every explicit string format: the tag must win over FormatByteArrayAsArray / DefaultOptionsV1
	// on BOTH sides (the option sets below include them)
	AB16  [4]byte  `json:",format:base16"`
	AHex  [2]byte  `json:",format:hex"`
	AB32H [6]byte  `json:",format:base32hex"`
	AB64  [4]byte  `json:",format:base64"`
	AB64U [9]byte  `json:",format:base64url"`
	PA    *[3]byte `json:",format:base64"`
}

func c04BytesFormats(c *Ctx) {
	ft := json.ExperimentalSupportFormatTag(true)
	sets := []struct {
		name string
		opts []json.Options
	}{
		{"FormatTag", []json.Options{ft}},
		{"FormatTag+DefaultOptionsV1", []json.Options{ft, jsonv1.DefaultOptionsV1()}},
		{"FormatTag+FormatByteArrayAsArray", []json.Options{ft, jsonv1.FormatByteArrayAsArray(true)}},
		{"FormatTag+FormatBytesWithLegacySemantics", []json.Options{ft, jsonv1.FormatBytesWithLegacySemantics(true)}},
	}
	reps := c.N(3, 200)
	n := 0
	for _, s := range sets {
		for l := 0; l <= 70; l++ {
			for rep := 0; rep < reps; rep++ {
				p := make([]byte, l)
				for i := range p {
					switch rep % 3 {
					case 0:
						p[i] = byte(c.Rng.Uint32())
					case 1:
						p[i] = 0xff
					default:
						p[i] = byte(0xf8 + c.Rng.IntN(8)) // '+' '/' '-' '_' dense in base64
					}
				}
				in := c04BytesBox{Def: p, B64: p, B64U: p, B32: p, B32H: p, B16: p, Hex: p, Arr: p, P: &p}
				copy(in.A5[:], p)
				copy(in.A3[:], p)
				copy(in.ADef[:], p)
				copy(in.AB16[:], p)
				copy(in.AHex[:], p)
				copy(in.AB32H[:], p)
				copy(in.AB64[:], p)
				copy(in.AB64U[:], p)
				var pa [3]byte
				copy(pa[:], p)
				in.PA = &pa
				var out c04BytesBox
				var b []byte
				var err, err2 error
				if pn := guard(func() {
					b, err = json.Marshal(in, s.opts...)
					if err == nil {
						err2 = json.Unmarshal(b, &out, s.opts...)
					}
				}); pn != nil {
					c.Panic("bytes-formats", b, pn, map[string]any{"len": l, "options": s.name})
					continue
				}
				eq := func(x []byte) bool { return bytes.Equal(x, p) }
				ok := err == nil && err2 == nil && eq(out.Def) && eq(out.B64) && eq(out.B64U) && eq(out.B32) && eq(out.B32H) && eq(out.B16) && eq(out.Hex) && eq(out.Arr) &&
					out.A5 == in.A5 && out.A3 == in.A3 && out.ADef == in.ADef && out.P != nil && eq(*out.P) &&
					out.AB16 == in.AB16 && out.AHex == in.AHex && out.AB32H == in.AB32H && out.AB64 == in.AB64 && out.AB64U == in.AB64U && out.PA != nil && *out.PA == pa
				if !ok {
					c.Violate("rt-bytes", "bytes-formats:"+s.name, b, map[string]any{"len": l, "payload": hx(p), "json": trunc(string(b), 2000), "marshal_err": fmt.Sprint(err), "unmarshal_err": fmt.Sprint(err2)})
				}
				c.Case(fmt.Sprintf("bytes:%s:%x", s.name, p), true)
				n++
				if l == 5 && rep == 0 && s.name == "FormatTag" {
					c.Sample(map[string]any{"op": "bytes-formats", "json": trunc(string(b), 400)})
				}
			}
		}
	}
	c.HitN("bytes-formats(base64,base64url,base32,base32hex,base16,hex,array; []byte, [N]byte with every format, ptr) len 0..70 x {FormatTag, +DefaultOptionsV1, +FormatByteArrayAsArray, +FormatBytesWithLegacySemantics}", int64(n))
}

// ---------------------------------------------------------------- correspondence: time codecs vs the Lean model

func c04ErrClass(err error) string {
	switch {
	case err == nil:
		return "ok"
	case errors.Is(err, strconv.ErrSyntax):
		return "E syntax"
	case errors.Is(err, strconv.ErrRange):
		return "E range"
	}
	return "other"
}

var c04Pow10s = []uint64{1, 1e3, 1e6, 1e9}

// c04Mutate applies a few byte-level edits drawn from an alphabet that is critical for these grammars.
func c04Mutate(r *rand.Rand, b []byte) []byte {
	const alpha = "0123456789.-+,PTHMSpthmsYWDywdeE _:/"
	out := append([]byte(nil), b...)
	for k := 1 + r.IntN(2); k > 0; k-- {
		switch op := r.IntN(7); {
		case op == 0 && len(out) > 0: // delete
			i := r.IntN(len(out))
			out = append(out[:i], out[i+1:]...)
		case op == 1 && len(out) > 0: // replace
			out[r.IntN(len(out))] = alpha[r.IntN(len(alpha))]
		case op == 2: // insert
			i := r.IntN(len(out) + 1)
			out = append(out[:i], append([]byte{alpha[r.IntN(len(alpha))]}, out[i:]...)...)
		case op == 3: // insert zeros / digits run
			i := r.IntN(len(out) + 1)
			run := bytes.Repeat([]byte{"09"[r.IntN(2)]}, 1+r.IntN(21))
			out = append(out[:i], append(run, out[i:]...)...)
		case op == 4 && len(out) > 0: // truncate
			out = out[:r.IntN(len(out))]
		case op == 5 && len(out) > 0: // bump a digit (overflow by one at the boundaries)
			i := r.IntN(len(out))
			if out[i] >= '0' && out[i] < '9' {
				out[i]++
			}
		default: // case flip of a designator
			for i := range out {
				if out[i] >= 'A' && out[i] <= 'Z' && r.IntN(2) == 0 {
					out[i] += 32
				}
			}
		}
	}
	return out
}

var c04HandTexts = []string{"", "-", "+", "0", "-0", "+0", "00", "01", "1", "-1", "1.", ".1", "1.0", "1.5", "-1.5", "1..5", "1.5.5", "1,5", "1e3", "0x10", " 1", "1 ",
	"9223372036854775807", "9223372036854775808", "-9223372036854775808", "-9223372036854775809", "18446744073709551615", "18446744073709551616",
	"9223372036854.775807", "9223372036854.775808", "-9223372036854.775808", "-9223372036854.775809", "9223372036.854775807", "9223372036.854775808",
	"-9223372036.854775808", "-9223372036.854775809", "9223372036854775.807", "9223372036854775.808", "-9223372036854775.808", "-9223372036854775.809",
	"1.0000000000", "1.0000000001", "1.999999999", "1.9999999999", "1.000", "1.0001", "0.000000001", "0.0000000001", "1.12345678x", "1.1234567890x", "1.x",
	"99999999999999999999", "10000000000000000000", "19999999999999999999", "100000000000000000000", "00000000000000000001", "1844674407370955161.5", "18446744073709551.615", "18446744073709551.616",
	"9223372036854775807.999999999", "9223372036854775808.0", "-9223372036854775808.999999999", "-9223372036854775809.0", "9223372036854775807999", "-9223372036854775808000", "9223372036854775807999999999", "92233720368547758079999999999",
	"P", "PT", "p", "pt", "PT0S", "-PT0S", "+PT0S", "PT0.0S", "PT1S", "pt1s", "PT1.5S", "PT1,5S", "PT1.S", "PT.5S", "PT1.5.5S", "PT1H", "PT1M", "PT1H1M1S", "PT1S1M", "PT1H1H", "PT01H", "PT001M", "PT1.5H", "PT1.5M", "PT0.5H30M", "PT1H0.5M", "PT1.25H", "PT0.1H", "PT0.000000001H",
	"P1D", "P1W", "P1M", "P1Y", "P1Y1M1W1D", "P1DT1H", "P1D1Y", "P1.5D", "P1.5W", "PT1D", "P1H", "P1S", "1S", "T1S", "PT1", "PT1X", "PTS", "PTH", "PT-1S", "PT+1S", "P-1D", "PT1S ", " PT1S", "PPT1S", "PTT1S", "PT1SS",
	"PT2562047H47M16.854775807S", "PT2562047H47M16.854775808S", "-PT2562047H47M16.854775808S", "-PT2562047H47M16.854775809S", "PT2562048H", "-PT2562048H", "PT153722867M", "PT153722868M", "PT9223372036S", "PT9223372037S", "PT9223372036.854775807S", "PT9223372036.854775808S",
	"-PT9223372036.854775808S", "PT18446744073709551615S", "PT18446744073709551616S", "PT5124095576030431H", "P292Y", "P293Y", "P106751D", "P106752D", "PT0.9999999999S", "PT0.0000000001S", "PT1.123456789123S", "PT1.12345678xS", "PT00000000000000000000001S", "PT1.e5H", "PT1.5e1H", "PT1.+5H", "PT1.5_H", "PT0.H",
	"PT9223372036.854775807S1", "PT1H2.5M3S", "PT1.5H2M", "PT1M2H"}

func c04TimeCorr(c *Ctx, or *Oracle) {
	if or == nil {
		c.Note("oracle not available: time codec correspondence skipped")
		return
	}
	type q struct {
		line, want string
		in        []byte
	}
	var batch []q
	flush := func() {
		if len(batch) == 0 {
			return
		}
		lines := make([]string, len(batch))
		for i, b := range batch {
			lines[i] = b.line
		}
		got := or.Ask(lines)
		for i, b := range batch {
			op := strings.Fields(b.line)[1]
			g := got[i]
			if g == "U" {
				c.Hit("corr-time:" + op + ":not-modelled(non-digit fraction through strconv.ParseFloat)")
				continue
			}
			g = strings.TrimPrefix(g, "F ")
			if g != got[i] {
				c.Hit("corr-time:" + op + ":float-branch(fraction of H/M/date unit)")
			}
			if g != b.want {
				c.Violate("corr-time", op, b.in, map[string]any{"line": b.line, "impl": b.want, "model": got[i], "text": string(b.in),
					"broken": "correspondence time." + op + " (Model/Time.lean vs arshal_time.go)"})
			}
			cls := b.want
			if strings.HasPrefix(cls, "ok") || strings.HasPrefix(cls, "inacc") {
				cls = strings.Fields(cls)[0]
			}
			if op == "pdurB10" || op == "pdurISO" || op == "ptunix" {
				c.Hit("corr-time:" + op + ":" + cls)
			}
		}
		batch = batch[:0]
	}
	add := func(line, want string, in []byte) {
		batch = append(batch, q{line, want, in})
		if len(batch) >= 4000 {
			flush()
		}
	}
	var pn any
	call := func(op string, in []byte, f func()) bool {
		if pn = guard(f); pn != nil {
			c.Panic(op, in, pn, map[string]any{"text": string(in)})
			return false
		}
		return true
	}
	pdurB10 := func(txt []byte, p uint64) {
		var d time.Duration
		var err error
		if !call("parseDurationBase10", txt, func() { d, err = json.VerifParseDurationBase10(txt, p) }) {
			return
		}
		want := c04ErrClass(err)
		if err == nil {
			want = fmt.Sprintf("ok %d", int64(d))
		}
		add(fmt.Sprintf("time pdurB10 %s %d", hx(txt), p), want, txt)
	}
	pdurISO := func(txt []byte) {
		var d time.Duration
		var err error
		if !call("parseDurationISO8601", txt, func() { d, err = json.VerifParseDurationISO8601(txt) }) {
			return
		}
		want := c04ErrClass(err)
		switch want {
		case "ok":
			want = fmt.Sprintf("ok %d", int64(d))
		case "other": // errInaccurateDateUnits: best-effort value plus an error
			want = fmt.Sprintf("inacc %d", int64(d))
		}
		add("time pdurISO "+hx(txt), want, txt)
	}
	ptunix := func(txt []byte, p uint64) {
		var t time.Time
		var err error
		if !call("parseTimeUnix", txt, func() { t, err = json.VerifParseTimeUnix(txt, p) }) {
			return
		}
		want := c04ErrClass(err)
		if err == nil {
			want = fmt.Sprintf("ok %d %d", t.Unix(), t.Nanosecond())
			if _, off := t.Zone(); off != 0 {
				c.Violate("rt-time", "parseTimeUnix:not-UTC", txt, map[string]any{"text": string(txt)})
			}
		}
		add(fmt.Sprintf("time ptunix %s %d", hx(txt), p), want, txt)
	}
	puint := func(txt []byte) {
		var v uint64
		var ok bool
		if !call("ParseUint", txt, func() { v, ok = jsonwire.ParseUint(txt) }) {
			return
		}
		add("time puint "+hx(txt), fmt.Sprintf("%d %s", v, b2s(ok)), txt)
	}

	r := c.Rng
	n := c.N(12000, 1500000)
	var texts [][]byte // pool of produced texts for the mutator
	bt, bd := ArithBoundaryTimes(), ArithBoundaryDurations()
	nb := max(len(bt), len(bd))
	c.HitN("corr-time:arith-boundary (sec,nsec) pairs (W=sec*pow10+frac within ±2 of 2^63-1,2^63,2^64-1,2^64; floor/ceil(q/pow10)±2; 1e9±2; both signs)", int64(len(bt)))
	c.HitN("corr-time:arith-boundary durations", int64(len(bd)))
	for i := 0; i < nb+n; i++ {
		d := BoundaryInt64(r)
		if i < nb {
			d = bd[i%len(bd)]
		}
		for _, p := range c04Pow10s {
			var out []byte
			if !call("appendDurationBase10", nil, func() { out = json.VerifAppendDurationBase10(nil, time.Duration(d), p) }) {
				continue
			}
			add(fmt.Sprintf("time durB10 %d %d", d, p), hx(out), nil)
			pdurB10(out, p)
			// the implementation-level round trip for this very value (the proved statement durB10_rt, observed on the code)
			if back, err := json.VerifParseDurationBase10(out, p); err != nil || int64(back) != d {
				c.Violate("rt-duration", "parseDurationBase10(appendDurationBase10(d))", out, map[string]any{"d": d, "pow10": p, "back": int64(back), "err": fmt.Sprint(err)})
			}
			if i%8 == 0 {
				texts = append(texts, out)
			}
		}
		var out []byte
		if call("appendDurationISO8601", nil, func() { out = json.VerifAppendDurationISO8601(nil, time.Duration(d)) }) {
			add(fmt.Sprintf("time durISO %d", d), hx(out), nil)
			pdurISO(out)
			if back, err := json.VerifParseDurationISO8601(out); err != nil || int64(back) != d {
				c.Violate("rt-duration", "parseDurationISO8601(appendDurationISO8601(d))", out, map[string]any{"d": d, "back": int64(back), "err": fmt.Sprint(err)})
			}
			if i%4 == 0 {
				texts = append(texts, out)
			}
		}
		// also with a non-empty prefix (TrimRight in appendFracBase10 looks at the whole buffer)
		if i%16 == 0 {
			pre := []byte("x0.00")
			o1 := json.VerifAppendDurationBase10(append([]byte(nil), pre...), time.Duration(d), 1e9)
			o2 := json.VerifAppendDurationBase10(nil, time.Duration(d), 1e9)
			if !bytes.Equal(o1, append(append([]byte(nil), pre...), o2...)) {
				c.Violate("corr-time", "appendDurationBase10:prefix", o1, map[string]any{"d": d, "with_prefix": string(o1), "without": string(o2), "broken": "append with a prefix is prefix ++ append without"})
			}
		}
		sec := BoundaryInt64(r)
		tm := GenTime(r, "unix")
		nsec := int64(tm.Nanosecond())
		if i < nb {
			sec, nsec = bt[i%len(bt)][0], bt[i%len(bt)][1]
		}
		tm = time.Unix(sec, nsec)
		if tm.Unix() != sec || int64(tm.Nanosecond()) != nsec {
			c.Violate("corr-time", "time.Unix", nil, map[string]any{"sec": sec, "nsec": nsec, "got": []int64{tm.Unix(), int64(tm.Nanosecond())},
				"broken": "assumption time.Unix(sec,nsec).Unix()==sec for nsec in [0,1e9)"})
		}
		for _, p := range c04Pow10s {
			var out []byte
			if !call("appendTimeUnix", nil, func() { out = json.VerifAppendTimeUnix(nil, tm, p) }) {
				continue
			}
			add(fmt.Sprintf("time tunix %d %d %d", sec, nsec, p), hx(out), nil)
			ptunix(out, p)
			if back, err := json.VerifParseTimeUnix(out, p); err != nil || back.Unix() != sec || int64(back.Nanosecond()) != nsec {
				c.Violate("rt-time", "parseTimeUnix(appendTimeUnix(t))", out, map[string]any{"sec": sec, "nsec": nsec, "pow10": p, "back": []int64{back.Unix(), int64(back.Nanosecond())}, "err": fmt.Sprint(err)})
			}
			if i%8 == 0 {
				texts = append(texts, out)
			}
		}
		c.Case(fmt.Sprintf("codec:%d:%d:%d", d, sec, nsec), true)
	}
	c.HitN("corr-time:append+parse(boundary-dense int64 x {1,1e3,1e6,1e9}, ISO, unix)", int64(n))
	for _, s := range c04HandTexts {
		texts = append(texts, []byte(s))
	}
	// malformed / mutated texts through every parser
	m := c.N(40000, 3000000)
	for i := 0; i < m; i++ {
		t := texts[r.IntN(len(texts))]
		if i < len(c04HandTexts)*2 {
			t = []byte(c04HandTexts[i%len(c04HandTexts)])
		}
		if i >= len(c04HandTexts) {
			t = c04Mutate(r, t)
		}
		switch i % 4 {
		case 0:
			pdurISO(t)
		case 1:
			pdurB10(t, c04Pow10s[r.IntN(4)])
		case 2:
			ptunix(t, c04Pow10s[r.IntN(4)])
		default:
			if i%8 == 3 {
				puint(t)
			} else {
				pdurISO(t)
			}
		}
		if i < len(c04HandTexts) { // hand-written texts through all parsers and bases
			pdurISO(t)
			puint(t)
			for _, p := range c04Pow10s {
				pdurB10(t, p)
				ptunix(t, p)
			}
		}
		c.Case("mut:"+string(t), true)
	}
	c.HitN("corr-time:mutated/malformed texts", int64(m))
	// helper ops
	for i := 0; i < c.N(3000, 200000); i++ {
		sec, nsec := BoundaryInt64(r), int64(GenTime(r, "unix").Nanosecond())
		_ = sec
		max10 := []uint64{1e3, 1e6, 1e9}[r.IntN(3)]
		nn := uint64(r.Int64N(int64(max10)))
		if r.IntN(3) == 0 {
			nn = uint64(r.IntN(12))
		}
		_ = nsec
		add(fmt.Sprintf("time padded %d %d", nn, max10), hx(c04GoPadded(nn, max10)), nil)
	}
	flush()
}

// c04GoPadded is strconv-based zero padding (what appendPaddedBase10 must produce for n < max10).
func c04GoPadded(n, max10 uint64) []byte {
	w := len(strconv.FormatUint(max10, 10)) - 1
	s := strconv.FormatUint(n, 10)
	return []byte(strings.Repeat("0", w-len(s)) + s)
}
