package main

// C02: compiled corpus of adversarial user types.  Every value carries (a pointer to) its own
// behaviour, so the "global script" of a case is simply the set of *Beh reachable from the value and
// from the WithMarshalers closures of that case; nothing is shared between goroutines.

import (
	"errors"
	"fmt"
	"math"
	"strings"
	"time"

	"github.com/go-json-experiment/json"
	"github.com/go-json-experiment/json/jsontext"
)

// ---- behaviours -------------------------------------------------------------------------------

// How a user marshaler returns.
const (
	retNil         = iota // nil
	retErr                // a custom error
	retUnsupported        // errors.ErrUnsupported itself
	retWrapped            // fmt.Errorf("…: %w", errors.ErrUnsupported)
	retSemantic           // a *json.SemanticError made by the user
	retSyntactic          // a *jsontext.SyntacticError made by the user
	nRet
)

var errUser = errors.New("c02: user error")

func retError(kind int) error {
	switch kind {
	case retNil:
		return nil
	case retErr:
		return errUser
	case retUnsupported:
		return errors.ErrUnsupported
	case retWrapped:
		return fmt.Errorf("c02 wrapped: %w", errors.ErrUnsupported)
	case retSemantic:
		return &json.SemanticError{Err: errUser}
	case retSyntactic:
		return &jsontext.SyntacticError{ByteOffset: 3, Err: errUser}
	}
	return errUser
}

// One step of a MarshalJSONTo / MarshalToFunc script.
const (
	opTok          = iota // WriteToken(tok(Arg))
	opVal                 // WriteValue(Raw)
	opNested              // json.MarshalEncode(enc, nestedValue(Arg), nestedOpts(Arg2)...)
	opEscape              // close the ENCLOSING container, reopen one of the same kind, refill it so that (depth,length) match
	opOneValue            // write exactly one well-formed value of shape Arg (possibly a nested container)
	opName                // write a fresh, unique string (useful in name position)
	opDeepEscape          // close Arg ENCLOSING containers (whatever their kinds), reopen the same kinds and refill them
	opNestedEscape        // open an array, marshal an int through a MarshalToFunc whose script is opDeepEscape(Arg), close the array
	opFailRecover         // json.MarshalEncode(failingValue(Arg)); on error: swallow it and finish the open containers by hand, re-using names
	opCloseOwn            // close every container still open above the entry depth (without adding members)
)

type Op struct {
	Kind int
	Arg  int
	Arg2 int
	Raw  []byte
}

// Trace is what the user code observed/did during one entry-point call (reset before each call).
type Trace struct {
	Calls      int  // number of user marshaler invocations
	Escaped    bool // some script popped below the depth at which it was entered
	RelaxDup   bool // a script ran a nested MarshalEncode with AllowDuplicateNames(true)
	RelaxUTF8  bool // … with AllowInvalidUTF8(true)
	OpErrs     int  // encoder calls of scripts that returned an error (ignored or not)
	Uniq       int  // counter for fresh names
	Nest       int  // current recursion depth of user code (scripts may re-enter Marshal)
	Swallowed  int  // failed nested MarshalEncode calls whose error the script swallowed
	DupToggled bool // a nested MarshalEncode of the script ran with an AllowDuplicateNames value different from the enclosing coder's
	DupDesync  bool // a nested MarshalEncode of the script ran with an AllowDuplicateNames value different from the enclosing
	// coder's EITHER while an object was already open around it OR ending with more containers open than it started with:
	// objects then exist that were begun under one value and are continued/closed under the other (root cause D9)
	Dropped bool // an AppendText returned a slice that does not extend the buffer it was given (contract breach)
}

// Beh is the behaviour of one user type value / one marshal function for one case.
type Beh struct {
	ID     int
	Bytes  []byte // MarshalJSON / MarshalFunc / MarshalText / AppendText result
	NilOut bool   // return a nil slice instead of Bytes
	Ret    int    // how to return (after the script for the encoder-style methods)
	Early  bool   // return Ret before doing anything (before the script / instead of bytes)
	Script []Op
	Stop   bool // stop at the first failing encoder call and return its error; otherwise ignore errors
	Skip   int  // (encoder-style only) return ErrUnsupported untouched for the first Skip calls
	Zero   bool // IsZero answer for the types that have the method
	tr     *Trace
	calls  int
}

func (b *Beh) reset() { b.calls = 0 }

var defaultBeh = &Beh{ID: -1, Bytes: []byte(`"dflt"`), tr: &Trace{}}
var defaultTextBeh = &Beh{ID: -2, Bytes: []byte(`dflt`), tr: &Trace{}}

func (b *Beh) desc() string {
	if b == nil {
		return "default"
	}
	var sb strings.Builder
	fmt.Fprintf(&sb, "beh%d{ret=%d early=%v stop=%v skip=%d nilout=%v bytes=%s script=[", b.ID, b.Ret, b.Early, b.Stop, b.Skip, b.NilOut, hx(b.Bytes))
	for i, o := range b.Script {
		if i > 0 {
			sb.WriteByte(' ')
		}
		switch o.Kind {
		case opTok:
			fmt.Fprintf(&sb, "tok:%s", tokName(o.Arg))
		case opVal:
			fmt.Fprintf(&sb, "val:%s", hx(o.Raw))
		case opNested:
			fmt.Fprintf(&sb, "nested:%d/%d", o.Arg, o.Arg2)
		case opEscape:
			sb.WriteString("escape")
		case opDeepEscape:
			fmt.Fprintf(&sb, "deep-escape:%d", o.Arg)
		case opNestedEscape:
			fmt.Fprintf(&sb, "nested-escape:%d", o.Arg)
		case opFailRecover:
			fmt.Fprintf(&sb, "fail-recover:%d/%d", o.Arg, o.Arg2)
		case opCloseOwn:
			sb.WriteString("close-own")
		case opOneValue:
			fmt.Fprintf(&sb, "one:%d", o.Arg)
		case opName:
			sb.WriteString("name")
		}
	}
	sb.WriteString("]}")
	return sb.String()
}

// bytes-style result (MarshalJSON, MarshalFunc, MarshalText)
func (b *Beh) bytesResult(dflt *Beh) ([]byte, error) {
	if b == nil {
		b = dflt
	}
	b.tr.Calls++
	if b.Early || b.Ret != retNil {
		if b.NilOut {
			return nil, retError(b.Ret)
		}
		return append([]byte(nil), b.Bytes...), retError(b.Ret) // bytes AND an error
	}
	if b.NilOut {
		return nil, nil
	}
	return append([]byte(nil), b.Bytes...), nil
}

// tokens available to scripts
var tokTable = []struct {
	name string
	tok  func() jsontext.Token
}{
	{"null", func() jsontext.Token { return jsontext.Null }},
	{"true", func() jsontext.Token { return jsontext.True }},
	{"false", func() jsontext.Token { return jsontext.False }},
	{"{", func() jsontext.Token { return jsontext.BeginObject }},
	{"}", func() jsontext.Token { return jsontext.EndObject }},
	{"[", func() jsontext.Token { return jsontext.BeginArray }},
	{"]", func() jsontext.Token { return jsontext.EndArray }},
	{"int", func() jsontext.Token { return jsontext.Int(-7) }},
	{"uint", func() jsontext.Token { return jsontext.Uint(math.MaxUint64) }},
	{"float", func() jsontext.Token { return jsontext.Float(1.5e300) }},
	{"nan", func() jsontext.Token { return jsontext.Float(math.NaN()) }},
	{"inf", func() jsontext.Token { return jsontext.Float(math.Inf(-1)) }},
	{"str-a", func() jsontext.Token { return jsontext.String("a") }},
	{"str-b", func() jsontext.Token { return jsontext.String("b") }},
	{"str-empty", func() jsontext.Token { return jsontext.String("") }},
	{"str-esc", func() jsontext.Token { return jsontext.String("q\"\\\n<&> \x00") }},
	{"str-badutf8", func() jsontext.Token { return jsontext.String("x\xffy") }},
	{"str-surrogate", func() jsontext.Token { return jsontext.String("\xed\xa0\x80") }},
	{"str-long", func() jsontext.Token { return jsontext.String(strings.Repeat("long\"", 900)) }},
	{"zero-token", func() jsontext.Token { return jsontext.Token{} }},
}

const (
	tokBeginObject = 3
	tokEndObject   = 4
	tokBeginArray  = 5
	tokEndArray    = 6
)

func tokName(i int) string { return tokTable[i%len(tokTable)].name }

// values that scripts marshal through a nested json.MarshalEncode
func nestedValue(i int, b *Beh) any {
	switch i % 14 {
	case 8:
		return map[string]any{"x": 1}
	case 9:
		return map[string]any{"x": map[string]any{"z": []any{}}}
	case 10:
		return struct {
			A any `json:"a"`
		}{map[string]any{"a": 1}}
	case 11:
		return []any{map[string]any{"k": "v"}}
	case 12:
		return map[string]any{}
	case 13:
		return map[UStr]any{"Rdup": map[string]any{"x": 1}, "dup": 2}
	case 0:
		return 1
	case 1:
		return "s\xff"
	case 2:
		return map[string]int{"a": 1}
	case 3:
		return []any{nil, true, "x"}
	case 4:
		return jsontext.Value(`{"a":1,"a":2}`)
	case 5:
		return struct{ A, B int }{1, 2}
	case 6:
		return UJ{B: &Beh{ID: -3, Bytes: []byte(`{"n":1}`), tr: b.tr}}
	default:
		return math.NaN()
	}
}

func nestedOpts(i int, tr *Trace) []json.Options {
	switch i % 6 {
	case 1:
		tr.RelaxDup = true
		return []json.Options{jsontext.AllowDuplicateNames(true)}
	case 2:
		tr.RelaxUTF8 = true
		return []json.Options{jsontext.AllowInvalidUTF8(true)}
	case 3:
		return []json.Options{jsontext.Multiline(true)}
	case 4:
		return []json.Options{json.StringifyNumbers(true), jsontext.EscapeForHTML(true)}
	case 5:
		return []json.Options{jsontext.AllowDuplicateNames(false), jsontext.AllowInvalidUTF8(false)}
	}
	return nil
}

// encoder-style result (MarshalJSONTo, MarshalToFunc)
func (b *Beh) run(enc *jsontext.Encoder) error {
	if b == nil {
		defaultBeh.tr.Calls++
		return enc.WriteToken(jsontext.String("dflt"))
	}
	tr := b.tr
	tr.Calls++
	b.calls++
	if b.calls <= b.Skip {
		return errors.ErrUnsupported
	}
	if b.Early {
		return retError(b.Ret)
	}
	tr.Nest++
	defer func() { tr.Nest-- }()
	if tr.Nest > 3 { // user code that re-enters itself for ever is a bug of the user code, not in the grid
		return enc.WriteToken(jsontext.String("too-deep"))
	}
	entry := enc.StackDepth()
	note := func(err error) bool { // reports whether the script must stop
		if enc.StackDepth() < entry {
			tr.Escaped = true
		}
		if err != nil {
			tr.OpErrs++
			return b.Stop
		}
		return false
	}
	for _, o := range b.Script {
		var err error
		switch o.Kind {
		case opTok:
			err = enc.WriteToken(tokTable[o.Arg%len(tokTable)].tok())
		case opVal:
			err = enc.WriteValue(jsontext.Value(o.Raw))
		case opNested:
			err = nestedMarshal(enc, tr, nestedValue(o.Arg, b), nestedOpts(o.Arg2, tr))
		case opName:
			tr.Uniq++
			err = enc.WriteToken(jsontext.String(fmt.Sprintf("u%d", tr.Uniq)))
		case opOneValue:
			err = writeOneValue(enc, o.Arg, tr)
		case opEscape:
			err = escapeContainer(enc, tr, note)
		case opDeepEscape:
			err = deepEscape(enc, o.Arg, tr, note)
		case opFailRecover:
			e := nestedMarshal(enc, tr, failingValue(o.Arg, b), failOpts(o.Arg2, tr))
			note(e)
			if e != nil {
				tr.Swallowed++
				completeByHand(enc, entry, o.Arg2, true, note)
			}
		case opCloseOwn:
			completeByHand(enc, entry, 0, false, note)
		case opNestedEscape:
			// the inner function runs one level below a container that THIS script opened: it may end neither that
			// array nor anything around it
			inner := &Beh{ID: -4, Script: []Op{{Kind: opDeepEscape, Arg: o.Arg}}, Stop: b.Stop, tr: tr}
			e1 := enc.WriteToken(jsontext.BeginArray)
			note(e1)
			e2 := json.MarshalEncode(enc, 7, json.WithMarshalers(json.MarshalToFunc(func(e *jsontext.Encoder, _ int) error { return inner.run(e) })))
			note(e2)
			e3 := enc.WriteToken(jsontext.EndArray)
			err = errors.Join(e1, e2, e3)
		}
		if note(err) {
			return err
		}
	}
	return retError(b.Ret)
}

// writeOneValue writes exactly one well-formed value token by token.
func writeOneValue(enc *jsontext.Encoder, shape int, tr *Trace) error {
	var errs []error
	w := func(t jsontext.Token) { errs = append(errs, enc.WriteToken(t)) }
	switch shape % 6 {
	case 0:
		w(jsontext.Int(42))
	case 1:
		tr.Uniq++
		w(jsontext.String(fmt.Sprintf("v%d", tr.Uniq)))
	case 2:
		w(jsontext.BeginObject)
		w(jsontext.EndObject)
	case 3:
		w(jsontext.BeginArray)
		w(jsontext.Null)
		w(jsontext.BeginArray)
		w(jsontext.EndArray)
		w(jsontext.EndArray)
	case 4:
		w(jsontext.BeginObject)
		w(jsontext.String("k"))
		w(jsontext.BeginObject)
		w(jsontext.String("k"))
		w(jsontext.False)
		w(jsontext.EndObject)
		w(jsontext.String("l"))
		w(jsontext.Float(0.25))
		w(jsontext.EndObject)
	case 5:
		errs = append(errs, enc.WriteValue(jsontext.Value(" [ {\"z\" : [ ] } , 1e2 ] ")))
	}
	return errors.Join(errs...)
}

// escapeContainer is the "smart" adversary: it leaves the container it was called in and builds a new
// one whose (depth, length) look exactly like "one more value was written".
func escapeContainer(enc *jsontext.Encoder, tr *Trace, note func(error) bool) error {
	d := enc.StackDepth()
	if d == 0 {
		return enc.WriteToken(jsontext.Null)
	}
	kind, n := enc.StackIndex(d)
	var errs []error
	w := func(t jsontext.Token) { e := enc.WriteToken(t); note(e); errs = append(errs, e) }
	switch kind {
	case '[':
		w(jsontext.EndArray)
		w(jsontext.BeginArray)
		for i := int64(0); i < n+1; i++ {
			w(jsontext.Int(i))
		}
	case '{':
		if n%2 == 1 { // a value is expected: finish the pending member first
			w(jsontext.Null)
		}
		w(jsontext.EndObject)
		w(jsontext.BeginObject)
		// the caller will compare against length n+1 (n odd: members; n even: members plus one name)
		for i := int64(0); i < n+1; i++ {
			if i%2 == 0 {
				tr.Uniq++
				w(jsontext.String(fmt.Sprintf("e%d", tr.Uniq)))
			} else {
				w(jsontext.Int(i))
			}
		}
	}
	return errors.Join(errs...)
}

// nestedMarshal is json.MarshalEncode as called by user code, recording in the trace whether the call switched
// AllowDuplicateNames relative to the enclosing coder in a way that leaves objects begun under one value and
// continued under the other.
func nestedMarshal(enc *jsontext.Encoder, tr *Trace, v any, opts []json.Options) error {
	before, _ := json.GetOption(enc.Options(), jsontext.AllowDuplicateNames)
	during, _ := json.GetOption(json.JoinOptions(enc.Options(), json.JoinOptions(opts...)), jsontext.AllowDuplicateNames)
	d0 := enc.StackDepth()
	inObject := false
	for i := 1; i <= d0; i++ {
		if k, _ := enc.StackIndex(i); k == '{' {
			inObject = true
		}
	}
	if before != during { // recorded BEFORE the call (it may panic inside) and completed when it returns or unwinds
		tr.DupToggled = true
		if inObject {
			tr.DupDesync = true
		}
		defer func() {
			if enc.StackDepth() > d0 {
				tr.DupDesync = true
			}
		}()
	}
	err := json.MarshalEncode(enc, v, opts...)
	return err
}

// Payloads whose marshaling fails part-way, at some depth inside arrays, unique-key maps, namespace-checked maps
// and structs (whose duplicate-name tracking is done outside the Encoder).
type cfA struct {
	A []any `json:"a"`
	B int   `json:"b"`
}
type cfM struct {
	A map[int]any `json:"a"`
	B int         `json:"b"`
}
type cfN struct {
	X int    `json:"x"`
	A cfA    `json:"a"`
	B string `json:"b"`
}
type cfU struct {
	A []UJ `json:"a"`
	B int  `json:"b"`
}
type cfS struct {
	A []string `json:"a"`
	B int      `json:"b"`
}
type cfF struct {
	A map[float64]any `json:"a"`
	B int             `json:"b"`
}
type cfT struct {
	A map[UStr][]any `json:"a"`
	B *cfA           `json:"b"`
}

func failingValue(i int, b *Beh) any {
	var bad any
	switch i % 4 { // how it fails
	case 0:
		bad = make(chan int)
	case 1:
		bad = func() {}
	case 2:
		bad = UJ{B: &Beh{ID: -5, Ret: retErr, Early: true, tr: b.tr}}
	default:
		bad = "\xff"
	}
	if i%16 == 15 {
		bad = "fine" // sometimes nothing fails
	}
	switch (i / 4) % 12 { // where
	case 0:
		return &cfA{A: []any{1, bad}, B: 2}
	case 1:
		return cfM{A: map[int]any{1: bad}, B: 2}
	case 2:
		return cfN{X: 1, A: cfA{A: []any{[]any{bad}}, B: 2}, B: "b"}
	case 3:
		if u, ok := bad.(UJ); ok {
			return cfU{A: []UJ{{}, u}, B: 2}
		}
		return cfS{A: []string{"ok", "\xff"}, B: 2}
	case 4:
		return cfF{A: map[float64]any{1.5: []any{bad}}, B: 2}
	case 5:
		return cfT{A: map[UStr][]any{"k": {1, bad}}}
	case 6:
		return map[string]any{"a": []any{1, bad}}
	case 7:
		return map[string]any{"a": map[string]any{"a": []any{bad}}}
	case 8:
		return []any{cfA{A: []any{bad}}}
	case 9:
		return map[int]cfA{7: {A: []any{0, bad}}}
	case 10:
		return cfT{B: &cfA{A: []any{map[string]any{"a": bad}}}}
	default:
		return struct {
			A any `json:"a"`
			B any `json:"b,omitempty"`
		}{A: []any{}, B: []any{bad}}
	}
}

func failOpts(i int, tr *Trace) []json.Options {
	switch (i / 8) % 8 {
	case 1:
		tr.RelaxDup = true
		return []json.Options{jsontext.AllowDuplicateNames(true)}
	case 2:
		tr.RelaxUTF8 = true
		return []json.Options{jsontext.AllowInvalidUTF8(true)}
	case 3:
		return []json.Options{json.Deterministic(true)}
	case 4:
		return []json.Options{json.StringifyNumbers(true)}
	}
	return nil
}

// completeByHand closes every container that is open above the script's entry depth.  With addMember it first
// writes, into every object, a member whose name was already used by the payloads (`a`, `b`, `x`, `1`, `k`).
func completeByHand(enc *jsontext.Encoder, entry, pick int, addMember bool, note func(error) bool) {
	names := []string{"a", "a", "b", "a", "x", "a", "1", "k", "a", "7", "1.5"}
	for i := 0; i < 64 && enc.StackDepth() > entry; i++ {
		d := enc.StackDepth()
		kind, n := enc.StackIndex(d)
		if kind == '[' {
			note(enc.WriteToken(jsontext.EndArray))
		} else {
			if n%2 == 1 {
				note(enc.WriteToken(jsontext.String("pending")))
			}
			if addMember {
				note(enc.WriteToken(jsontext.String(names[(pick+i)%len(names)])))
				note(enc.WriteToken(jsontext.String("recovered")))
			}
			note(enc.WriteToken(jsontext.EndObject))
		}
		if enc.StackDepth() >= d {
			break // refused: leave it (the caller's one-value test will then fail)
		}
	}
}

// deepEscape generalises escapeContainer to `levels` enclosing containers of any kinds: `]` `}` … then the same
// kinds reopened and refilled so that every reopened level shows the length it had (the innermost one more).
func deepEscape(enc *jsontext.Encoder, levels int, tr *Trace, note func(error) bool) error {
	d := enc.StackDepth()
	levels = min(levels, d)
	if levels <= 0 {
		return enc.WriteToken(jsontext.Null)
	}
	type lvl struct {
		kind jsontext.Kind
		n    int64
	}
	var ls []lvl // ls[0] is the innermost
	for i := 0; i < levels; i++ {
		k, n := enc.StackIndex(d - i)
		ls = append(ls, lvl{k, n})
	}
	var errs []error
	w := func(t jsontext.Token) { e := enc.WriteToken(t); note(e); errs = append(errs, e) }
	fill := func(kind jsontext.Kind, want int64) {
		for i := int64(0); i < want; i++ {
			if kind == '{' && i%2 == 0 {
				tr.Uniq++
				w(jsontext.String(fmt.Sprintf("d%d", tr.Uniq)))
			} else {
				w(jsontext.Int(i))
			}
		}
	}
	for i, l := range ls {
		if l.kind == '{' {
			if i == 0 && l.n%2 == 1 {
				w(jsontext.Null) // finish the pending member
			}
			w(jsontext.EndObject)
		} else {
			w(jsontext.EndArray)
		}
	}
	for i := levels - 1; i >= 0; i-- {
		l := ls[i]
		if l.kind == '{' {
			w(jsontext.BeginObject)
		} else {
			w(jsontext.BeginArray)
		}
		if i == 0 {
			fill(l.kind, l.n+1)
		} else {
			fill(l.kind, l.n-1) // the child about to be reopened is the l.n-th token
		}
	}
	return errors.Join(errs...)
}

// ---- the compiled types ---------------------------------------------------------------------

// UJ: MarshalJSON, value receiver.
type UJ struct{ B *Beh }

func (u UJ) MarshalJSON() ([]byte, error) { return u.B.bytesResult(defaultBeh) }

// UJP: MarshalJSON, pointer receiver.
type UJP struct{ B *Beh }

func (u *UJP) MarshalJSON() ([]byte, error) {
	if u == nil {
		return []byte(`"nilrecv"`), nil
	}
	return u.B.bytesResult(defaultBeh)
}

// UTo: MarshalJSONTo, value receiver.
type UTo struct{ B *Beh }

func (u UTo) MarshalJSONTo(enc *jsontext.Encoder) error { return u.B.run(enc) }

// UToP: MarshalJSONTo, pointer receiver.
type UToP struct{ B *Beh }

func (u *UToP) MarshalJSONTo(enc *jsontext.Encoder) error {
	if u == nil {
		return enc.WriteToken(jsontext.String("nilrecv"))
	}
	return u.B.run(enc)
}

// UT: MarshalText, value receiver.
type UT struct{ B *Beh }

func (u UT) MarshalText() ([]byte, error) { return u.B.bytesResult(defaultTextBeh) }

// UTP: MarshalText, pointer receiver.
type UTP struct{ B *Beh }

func (u *UTP) MarshalText() ([]byte, error) {
	if u == nil {
		return []byte("nilrecv"), nil
	}
	return u.B.bytesResult(defaultTextBeh)
}

// UA: AppendText (encoding.TextAppender), value receiver.
type UA struct{ B *Beh }

func (u UA) AppendText(b []byte) ([]byte, error) {
	out, err := u.B.bytesResult(defaultTextBeh)
	if u.B != nil && u.B.NilOut {
		if len(b) > 0 {
			u.B.tr.Dropped = true
		}
		return nil, err // drops the prefix it was given: breaks the encoding.TextAppender contract
	}
	return append(b, out...), err
}

// UAT: both AppendText and MarshalText (the appender must win; both are adversarial).
type UAT struct{ B *Beh }

func (u UAT) AppendText(b []byte) ([]byte, error) {
	out, err := u.B.bytesResult(defaultTextBeh)
	return append(b, out...), err
}
func (u UAT) MarshalText() ([]byte, error) { return u.B.bytesResult(defaultTextBeh) }

// UJT: MarshalJSON and MarshalText.
type UJT struct{ B *Beh }

func (u UJT) MarshalJSON() ([]byte, error) { return u.B.bytesResult(defaultBeh) }
func (u UJT) MarshalText() ([]byte, error) { return []byte("text-side"), nil }

// UAll: every marshal method at once.
type UAll struct{ B *Beh }

func (u UAll) MarshalJSONTo(enc *jsontext.Encoder) error { return u.B.run(enc) }
func (u UAll) MarshalJSON() ([]byte, error)              { return []byte(`"json-side"`), nil }
func (u UAll) MarshalText() ([]byte, error)              { return []byte("text-side"), nil }

// UZ: MarshalJSON + IsZero (omitzero consults IsZero).
type UZ struct{ B *Beh }

func (u UZ) MarshalJSON() ([]byte, error) { return u.B.bytesResult(defaultBeh) }
func (u UZ) IsZero() bool                 { return u.B != nil && u.B.Zero }

// UStr: string kind with MarshalText; the behaviour is encoded in the string itself so that it can be
// a map key of string kind: "E…" → error, "R<text>" → returns <text> verbatim, anything else → itself.
type UStr string

func (u UStr) MarshalText() ([]byte, error) {
	s := string(u)
	switch {
	case strings.HasPrefix(s, "E"):
		return []byte(s), errUser
	case strings.HasPrefix(s, "R"):
		return []byte(s[1:]), nil
	}
	return []byte(s), nil
}

// UIntTo: int kind with MarshalJSONTo driven by the value: writes (value mod 4) string tokens.
type UIntTo int

func (u UIntTo) MarshalJSONTo(enc *jsontext.Encoder) error {
	for i := 0; i < int(u&3); i++ {
		if err := enc.WriteToken(jsontext.String(fmt.Sprintf("k%d_%d", int(u), i))); err != nil {
			return err
		}
	}
	return nil
}

// Named interface types (marshal dispatch through a non-empty interface).
type IfaceJ interface{ MarshalJSON() ([]byte, error) }
type IfaceT interface{ MarshalText() ([]byte, error) }
type IfaceTo interface {
	MarshalJSONTo(*jsontext.Encoder) error
}

// Source-level structs for what reflect.StructOf cannot build.
type EmbInner struct {
	A int    `json:"a"`
	S string `json:"s,omitempty"`
}
type embUnexp struct {
	U int `json:"u"`
	V UJ  `json:"v"`
}
type CEmbed struct {
	EmbInner
	*embUnexp
	jsontext.Value     // embedded fallback by Go embedding
	X              UTo `json:"x,omitempty"`
}
type CEmbedMap struct {
	*EmbInner
	M  map[string]UJ `json:",embed"`
	To UTo           `json:"a"` // collides with EmbInner.a (shallower wins)
}
type CEmbedPtrRaw struct {
	EmbInner
	P *jsontext.Value `json:",embed"`
	T time.Time       `json:"t,omitzero,format:unixmilli"`
}

// every NAMED layout that prints the zone ABBREVIATION (free text of the Location), plus durations in text form
type CTimes struct {
	A time.Time     `json:"a,format:RFC1123"`
	B time.Time     `json:"b,format:UnixDate"`
	C time.Time     `json:"c,format:RFC822"`
	D time.Time     `json:"d,format:RFC850"`
	G *time.Time    `json:"g,omitzero,format:RFC1123"`
	H time.Time     `json:"h,omitzero"`
	I time.Duration `json:"i,format:units"`
	J time.Duration `json:"j,format:iso8601"`
}

// hand-written layouts (kept apart: an error here must not hide what the named layouts do with the same time)
type CTimesCustom struct {
	E time.Time               `json:"e,format:'(MST)'"`
	F time.Time               `json:"f,format:'Mon Jan _2 15:04:05 MST 2006'"`
	K map[string]time.Time    `json:"k"`
	L map[time.Time]time.Time `json:"l"`
}

// colliding TextMarshaler key texts around untyped values (the uniqueness of such a map's names rests on the encoder)
type CDupKeys struct {
	M map[UStr]any `json:"m"`
	N map[UT]any   `json:"n,omitempty"`
}

// several `omitempty` members whose emptiness is only known after they were written (unwritten afterwards), at the
// first, middle and last positions, between members that stay
type COmit struct {
	A any            `json:"a,omitempty"`
	B int            `json:"b"`
	C *struct{}      `json:"c,omitempty"`
	D UJ             `json:"d,omitempty"`
	E any            `json:"e,omitempty"`
	F string         `json:"f"`
	G IfaceJ         `json:"g,omitempty"`
	H map[string]any `json:"h,omitempty"`
	I *[]int         `json:"i,omitempty"`
	J any            `json:"j,omitempty"`
}
type CTextKeyed struct {
	K map[UT]UJ     `json:"k"`
	L map[UStr]int  `json:"l"`
	N map[UIntTo]UA `json:"n"`
	I map[IfaceT]any
}
type CRecursive struct {
	Name string       `json:"name"`
	Kids []CRecursive `json:"kids,omitempty"`
	Any  any          `json:"any,omitzero"`
	U    *UToP        `json:"u"`
}
